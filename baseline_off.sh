#!/bin/sh
# Runs the repository's pinned baseline with the verif guard OFF (default toolchain, no tags)
# exactly as /root/.vp/BASELINE.json does (go test -json per module), prints the JSON stream on
# stdout, and exits 0 iff every test of BASELINE.json's stable_pass list passed.
export GOFLAGS=-mod=mod GOPROXY=off GOSUMDB=off GOTOOLCHAIN=local
OUT=$(mktemp /tmp/baseline_off.XXXXXX)
for m in dnsrocks dnsrocks/go-cdb-mods; do
  (cd /repo/$m && go test -mod=mod -json -vet=off -count=1 -timeout 25m ./...) >> "$OUT" 2>/dev/null
done
cat "$OUT"
python3 - "$OUT" <<'PY'
import json, sys
passed=set()
for line in open(sys.argv[1], errors='replace'):
    try: ev=json.loads(line)
    except Exception: continue
    if ev.get('Action')=='pass' and ev.get('Test'):
        passed.add(ev['Package']+'::'+ev['Test'])
want=set(json.load(open('/root/.vp/BASELINE.json'))['stable_pass'])
missing=sorted(want-passed)
sys.stderr.write('baseline_off: %d/%d stable tests passed\n' % (len(want)-len(missing), len(want)))
for m in missing[:20]: sys.stderr.write('  MISSING '+m+'\n')
sys.exit(1 if missing else 0)
PY
rc=$?
rm -f "$OUT"
exit $rc
