#!/bin/sh
# Runs the repository's pinned baseline with the verif guard OFF (default toolchain, no tags).
export GOFLAGS=-mod=mod GOPROXY=off GOSUMDB=off GOTOOLCHAIN=local
rc=0
for m in dnsrocks dnsrocks/go-cdb-mods; do
  (cd /repo/$m && go test -mod=mod -vet=off -count=1 -timeout 25m ./...) || rc=1
done
exit $rc
