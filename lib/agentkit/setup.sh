#!/bin/sh
# (re)creates /tmp/agentkit (go.mod template + vendored x/net subset) used by lib/seedeval.py and by sub-agents
set -e
here=$(cd "$(dirname "$0")" && pwd)
mkdir -p /tmp/agentkit
cp "$here/go.mod.template" /tmp/agentkit/go.mod.template
rm -rf /tmp/agentkit/xnet
cp -r "$here/../../sim/third_party/xnet" /tmp/agentkit/xnet
cat > /tmp/agentkit/mkmod.sh <<'EOS'
#!/bin/sh
# usage: /tmp/agentkit/mkmod.sh <worktree>  -> creates <worktree>-mod with a go.mod that lets go1.26.8 test the worktree's packages
set -e
wt=$(cd "$1" && pwd)
mkdir -p "$wt-mod"
sed "s#WORKTREE#$wt#g" /tmp/agentkit/go.mod.template > "$wt-mod/go.mod"
cp "$wt/dnsrocks/go.sum" "$wt-mod/go.sum"
echo "$wt-mod"
EOS
chmod +x /tmp/agentkit/mkmod.sh
