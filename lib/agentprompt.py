#!/usr/bin/env python3
"""Prepares a scratch worktree for a sub-agent and prints the prompt it is given.

  python3 lib/agentprompt.py <property id> <seed id>      e.g.  C05 C05-4

The prompt holds the property record (verbatim from properties.jsonl), the build recipe of this
sandbox and the one-line descriptions of the changes already kept for that property (so that the
agent writes something else). It holds nothing about how the checks of /verif work.
"""
import json
import os
import re
import subprocess
import sys

VERIF = os.path.dirname(os.path.dirname(os.path.abspath(__file__)))


def main():
    prop, sid = sys.argv[1], sys.argv[2]
    flavour = FLAVOURS.get(sys.argv[3] if len(sys.argv) > 3 else "", "")
    rec = None
    for l in open(os.path.join(VERIF, "properties.jsonl")):
        r = json.loads(l)
        if r["id"] == prop:
            rec = r
    assert rec, prop
    subprocess.run([os.path.join(VERIF, "lib/agentkit/setup.sh")], check=True)
    wt = "/tmp/agent-%s" % sid
    subprocess.run(["git", "-C", "/repo", "worktree", "remove", "--force", wt], stdout=subprocess.DEVNULL, stderr=subprocess.DEVNULL)
    subprocess.run(["rm", "-rf", wt, wt + "-mod"])
    subprocess.run(["git", "-C", "/repo", "worktree", "add", "-q", "--detach", wt, "HEAD"], check=True)
    subprocess.run(["/tmp/agentkit/mkmod.sh", wt], check=True, stdout=subprocess.DEVNULL)
    prior = []
    for l in open(os.path.join(VERIF, "DESIGN.md")):
        m = re.match(r"\| (%s-\d+) \| (.*?) \| " % prop, l)
        if m:
            prior.append(m.group(2))
    txt = PROMPT.replace("@FLAVOUR@", flavour).replace("@WT@", wt).replace("@PROP@", json.dumps(rec, indent=1)).replace(
        "@PRIOR@", "\n".join("  - " + p for p in prior) if prior else "  (none yet)")
    print(txt)


FLAVOURS = {
    "interleaving": "- For this one, PREFER a change that manifests only under a particular interleaving of goroutines (a window between two statements, a lock released too early or taken too late, a value read before and used after another goroutine's step), if the property has any concurrency in it.\n",
    "fault": "- For this one, PREFER a change that manifests only when a fault strikes at a particular point: an I/O or storage error, a timeout, a missing or malformed file, a short read, a failed step in the middle of a multi-step operation - the error path is where the property breaks.\n",
    "two-sites": "- For this one, PREFER a change made of two cooperating edits in different functions or files, each of which looks correct (even an improvement) on its own and only together break the property.\n",
    "sequence": "- For this one, PREFER a change that needs a multi-step history to manifest (three or more operations in a particular order, state left behind by an earlier operation, a boundary crossed only after many operations), not a single call.\n",
    "config": "- For this one, PREFER a change that manifests only under an unusual but legal configuration or input shape (a non-default option, an extreme size, a boundary value, a rarely used record type or field combination).\n",
}

PROMPT = r"""You are helping to evaluate a verification effort for the Go repository facebookincubator/dns (Meta's authoritative DNS server "dnsrocks"). Your job: write ONE realistic, subtle change to the repository's (non-test) source that BREAKS the semantic property given below, while the code still compiles and the existing test suite still passes, plus a demonstration (a Go test) that FAILS with your change and PASSES without it.

Work ONLY inside your own scratch git worktree: @WT@  (the Go module is in @WT@/dnsrocks; a second small module is @WT@/dnsrocks/go-cdb-mods). Do NOT read or touch /repo or /verif or any other /tmp/agent-* directory; the sandbox has no network.

## The property (verbatim record)

@PROP@

## What kind of change is wanted

- A change a tired maintainer could plausibly make in a refactoring, an "optimisation" or a "clean-up" - not sabotage that announces itself, and not a change ordinary use would expose at once.
- It must need something SPECIFIC to manifest: a particular interleaving of goroutines, a fault (I/O error, timeout, missing file) at a particular point, a multi-step sequence of operations, an unusual but legal input shape, a particular configuration, or two cooperating sites that each look fine alone. Say precisely what it needs.
@FLAVOUR@- It must really violate the property as stated (not a neighbouring property), observable through the public behaviour the property talks about.
- Keep it small (typically 1-30 changed lines, one or two files). Do not change any *_test.go file that exists already. Do not add, delete, move or edit any line containing `verifhook.` (no-op instrumentation hooks; leave each of them exactly where it is relative to the statements around it) and do not touch files whose name contains `verif`.
- It must be DIFFERENT from these changes, which were already written for this property:
@PRIOR@

## Build / test recipe in this sandbox

Every shell call must start with:  export GOFLAGS=-mod=mod GOPROXY=off GOSUMDB=off GOTOOLCHAIN=local
- The "existing test suite" is:  (cd @WT@/dnsrocks && go test -mod=mod -vet=off -count=1 ./... 2>&1 | grep -v 'no test files')  and  (cd @WT@/dnsrocks/go-cdb-mods && go test -mod=mod -vet=off -count=1 ./...).  With the default `go` (1.23) the packages db, dnsserver, fbserver, whoami, logger, testaid FAIL TO LINK (old x/net) - that is expected and is not a test failure; every other package must pass.
- To run the tests of db / dnsserver / fbserver (and your demonstration if it lives there) use the newer toolchain through the prepared module directory @WT@-mod :
    cd @WT@-mod && go1.26.8 test -vet=off -count=1 github.com/facebookincubator/dns/dnsrocks/db github.com/facebookincubator/dns/dnsrocks/dnsserver github.com/facebookincubator/dns/dnsrocks/fbserver
  (any package of the worktree can be tested this way: github.com/facebookincubator/dns/dnsrocks/<pkg>; first build takes about a minute). These must still pass with your change too. (dnsserver's own tests have a known load-dependent flake with a nil-pointer panic in a leaked periodic reloader; re-run if you see exactly that.)
- Test data: @WT@/dnsrocks/testdata/data/data.in ; helper packages testaid/testutils exist. RocksDB (cgo) is installed and works.

## Deliverables (all inside @WT@)

1. The source change applied in the worktree, and `@WT@/SEED_PATCH.diff` = output of `git diff -- . ':!*_test.go'` (non-test files only).
2. A demonstration: a NEW test file named `zz_seed_demo_test.go` in the package directory it tests (test function names must contain `SeedDemo`), self-contained, deterministic (it may use goroutines/channels/sleeps to force the needed interleaving, or small fakes of the repo's own interfaces), running in well under 2 minutes. It must PASS on the unchanged code (verify with `git stash` / `git stash pop` of the source change, or `git apply -R SEED_PATCH.diff`) and FAIL with your change. Run it with the go1.26.8 recipe above (-run SeedDemo).
3. `@WT@/SEED_NOTES.md`: first line `# <one-sentence description of the change>`; then: why it looks innocent, why it breaks the property, exactly what is needed for it to manifest, and the commands you ran with their results (demo without change: PASS; demo with change: FAIL; existing tests with change: PASS).

Finish with the change APPLIED in the worktree. In your final answer give a 5-line summary (file/function changed, what is needed to manifest, test results). If after honest effort you cannot make all three hold (breaks property, existing tests pass, demo discriminates), say so plainly rather than delivering something weaker.
"""

if __name__ == "__main__":
    main()
