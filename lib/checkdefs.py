"""Static description of each registered check (used by ./check for evidence files)."""

REAL_SERVER = ["dnsserver.FBDNSDB (Reload, AcquireReader, Close, ReloadChan loop)", "db.DB / db.Reader reference counting",
               "db.Reload (worker goroutine + timeout on the fake clock)"]

CHECKS = {
    "C06": {
        "test": "TestC06",
        "level": "fault_enumeration",
        "budget": {"quick": 30, "thorough": 600},
        "rule": ("each evaluation is one simulated history: up to 3 reader tasks (acquire / use / release sessions), one operator "
                 "issuing up to 5 reloads drawn from {new or same path} x {ok, open error, injected error, validation key missing} x "
                 "{fast, slow, slower than the reload timeout, delay before/after the open} and a shutdown at a seeded position, "
                 "interleaved by the seeded scheduler at the verif yield points. A run is non-trivial when at least one reload ran "
                 "with a reader present or the scheduler pre-empted an enabled task; distinct = distinct hash of the full "
                 "(task, yield point) schedule plus monitor event log."),
        "components": {
            "real": REAL_SERVER,
            "stub": ["storage back end: in-memory db.DBI with RocksDB-like (same path = same back end) or CDB-like (always new) "
                     "reload behaviour, wrapped by the open/use/close monitor"],
            "simulated": ["clock, timers, context deadlines (testing/synctest)", "goroutine scheduling at yield points (seeded)"],
            "not_run": ["real cdb / rocksdb drivers (thorough tier of C05/C14 runs them under the same monitor)", "fsnotify watchers"],
        },
        "assumptions": [
            "interleavings are explored at the granularity of the verif yield points; code between two points runs atomically",
            "the select tie of db.Reload (worker done and timeout in the same instant) is not reachable under the scheduler",
            "no reader acquisition is started after shutdown began (the server stops its listeners first)",
        ],
        "required_probes": {"quick": ["reload_ok", "reload_timed_out", "validation_failed", "reload_error"],
                            "thorough": ["reload_ok", "reload_timed_out", "validation_failed", "reload_error"]},
    },
}
