"""Static description of each registered check (used by ./check for evidence files)."""

REAL_SERVER = ["dnsserver.FBDNSDB (Reload, AcquireReader, Close, ReloadChan loop)", "db.DB / db.Reader reference counting",
               "db.Reload (worker goroutine + timeout on the fake clock)"]

CHECKS = {
    "C06": {
        "test": "TestC06",
        "cover_note": "distinct operator sequences of length 1..3 over the reload kinds (target x outcome x timing) and shutdown that were executed",
        "level": "fault_enumeration",
        "budget": {"quick": 30, "thorough": 600},
        "rule": ("each evaluation is one simulated history: up to 3 reader tasks (acquire / use / release sessions), one operator "
                 "issuing up to 5 reloads drawn from {new or same path} x {ok, open error, injected error, validation key missing} x "
                 "{fast, slow, slower than the reload timeout, delay before/after the open} and a shutdown at a seeded position, "
                 "interleaved by the seeded scheduler at the verif yield points. A run is non-trivial when at least one reload ran "
                 "with a reader present or the scheduler pre-empted an enabled task; distinct = distinct hash of the full "
                 "(task, yield point) schedule plus monitor event log. One history in 12 (quick) or 3 (thorough) runs on the REAL cdb / rocksdb "
                 "drivers instead (queries through ServeDNS are the readers, reloads publish real files, unreadable and key-less targets, injected "
                 "errors and delays, reload signals of a task of their own and of the periodic reloader that may be in flight when shutdown begins, shutdown at a seeded position) under the same monitor, plus a count of RocksDB secondary log directories; one in three of those is a whole-process run "
                 "(real fbserver.Server: watcher loops, control files, SIGHUP, LogMapAge and DumpBackendStats tickers that outlive Server.Shutdown)."),
        "components": {
            "real": REAL_SERVER,
            "stub": ["storage back end: in-memory db.DBI with RocksDB-like (same path = same back end) or CDB-like (always new) "
                     "reload behaviour, wrapped by the open/use/close monitor"],
            "simulated": ["clock, timers, context deadlines (testing/synctest)", "goroutine scheduling at yield points (seeded)"],
            "real_in_a_share_of_runs": ["cdb driver on real CDB files (mmap)", "rocksdb driver on real RocksDB directories (secondary + in-process primary)", "FBDNSDB.ServeDNS as the reader"],
            "not_run": ["fsnotify watchers"],
        },
        "assumptions": [
            "interleavings are explored at the granularity of the verif yield points; code between two points runs atomically",
            "the select tie of db.Reload (worker done and timeout in the same instant) is not reachable under the scheduler",
            "no client query is started after shutdown began (the server stops its listeners first); the server's own tickers (LogMapAge) do acquire readers after shutdown and are judged",
        ],
        "required_probes": {"quick": ["reload_ok", "reload_timed_out", "validation_failed", "reload_error", "real_backend_history_with_shutdown", "lowlevel_catchup_failed", "whole_process_history_with_shutdown"],
                            "thorough": ["reload_ok", "reload_timed_out", "validation_failed", "reload_error", "real_backend_history_with_shutdown", "lowlevel_catchup_failed", "whole_process_history_with_shutdown"]},
    },
    "C05": {
        "test": "TestC05",
        "race_tier": {"test": "TestC05Free", "race": False, "budget": {"quick": 12, "thorough": 300}},
        "level": "exploration",
        "budget": {"quick": 45, "thorough": 900},
        "rule": ("each evaluation is one simulated history: 1-4 client tasks sending queries through FBDNSDB.ServeDNS and one operator "
                 "publishing a new generation-stamped database and reloading (full / partial; valid, missing, unreadable, without "
                 "validation key, injected error, slower than the timeout), interleaved by the seeded scheduler at the verif yield "
                 "points of the handler and of the reload path. Non-trivial = at least one query overlapped a reload or the scheduler "
                 "pre-empted an enabled task; distinct = distinct hash of the full (task, yield point) schedule."
                 " One run in 4 is a WHOLE-PROCESS run: the handler lives in a real fbserver.Server as cmd/dnsrocks builds it; reload requests travel as control files ('switchdb' with the new path, 'reload') plus the file-system events inotify would report, as events for the database path through the -watchdb loop, or as SIGHUP through Server.ReloadDB, all through the real watcher loops on simulated event channels; Server.LogMapAge and Server.DumpBackendStats run on their 10 s tickers and keep running after shutdown; a watcher loop that returns an error shuts the server down as Server.WatchDBAndReload does; shutdown is Server.Shutdown. One run in three has the response cache on, with the queries concentrated on one or two keys (same generation oracles). In half of the runs one to three queries are STALLED at one of the handler's yield points for 9-311 ms of fake time (a slow or descheduled handler goroutine), so that whole reloads fit between two steps of one query. In one of six runs whose operator calls Reload itself the control path is not a directory, so that removing the processed control file fails at the very end of an otherwise complete reload: such a reload counts as completed. A reload request that ends a watcher loop (and with it the server) is a violation of 'a failed reload leaves the server answering as if nothing happened'."),
        "components": {
            "real": REAL_SERVER + ["fbserver.Server (NewServer, ReloadDB, LogMapAge, DumpBackendStats, PeriodicDBReload, Shutdown), FBDNSDB.watchDBAndReload / watchControlDirAndReload / getNewDBPath / cleanupSignalFile in whole-process runs", "dnsserver.FBDNSDB.ServeDNS (cache off)", "db answer/location code", "cdb driver on real CDB files (mmap)",
                                   "rocksdb driver on real RocksDB directories (secondary; in-process primary applying diffs), v1 and v2 keys",
                                   "dnsdata/cdb and dnsdata/rdb compilers (outside the bubble), rdb.ApplyDiff (inside)"],
            "stub": ["recording stats.Stats and dnsserver.Logger", "monitor wrapper around the real db.DBI (reload fault plan)"],
            "simulated": ["clock, timers, context deadlines (testing/synctest)", "goroutine scheduling at yield points (seeded)"],
            "not_run": ["inotify itself (in whole-process runs the watcher loops run on simulated event channels)", "network"],
        },
        "assumptions": [
            "interleavings are explored at the granularity of the verif yield points",
            "RocksDB's own background threads are real and unscheduled; only logical content is observed",
            "publish and reload are never concurrent with each other (each reload has a definite target)",
        ],
        "required_probes": {"quick": ["query_overlaps_reload", "reload_ok", "reload_timed_out", "validation_failed", "reload_error", "whole_process_run", "reload_requested_by_switchdb_file", "reload_requested_by_reload_file", "reload_requested_by_sighup", "reload_requested_by_db_event", "response_cache_on", "reload_completed_but_cleanup_failed"],
                            "thorough": ["query_overlaps_reload", "reload_ok", "reload_timed_out", "validation_failed", "reload_error", "decoy_published", "lowlevel_catchup_failed", "whole_process_run", "reload_requested_by_switchdb_file", "reload_requested_by_reload_file", "reload_requested_by_sighup", "reload_requested_by_db_event", "response_cache_on", "reload_completed_but_cleanup_failed"]},
    },
    "C12": {
        "test": "TestC12",
        "level": "exploration",
        "budget": {"quick": 45, "thorough": 900},
        "rule": ("as C05 with the response cache ON (LRU size 1..1024, WRS timeout 0/5 s), queries concentrated on few cache keys (different "
                 "locations, types, classes, EDNS/ECS, mixed case), clock jumps across the 1000 s entry lifetime. Every response is compared with "
                 "a cache-off handler of the same backend kind on the generation whose stamp it carries, and the reload/query history must be "
                 "linearizable as a register. In one of six runs whose operator calls Reload itself the removal of the control file fails at the end of every otherwise complete reload (the control path is not a directory): "
                 "the switch has been made, so the reload counts as completed and nothing of the previous generation may be served afterwards. Non-trivial = at least one cache hit or a query overlapping a reload; distinct = schedule hash."),
        "components": {
            "real": REAL_SERVER + ["dnsserver.FBDNSDB.ServeDNS with the hashicorp LRU response cache", "cdb and rocksdb drivers on real files",
                                   "reference: cache-off FBDNSDB per generation, same backend kind, outside the bubble"],
            "stub": ["recording stats.Stats (cache hit/miss attribution per query) and Logger", "monitor wrapper around the real db.DBI"],
            "simulated": ["clock (cache entry expiry reads time.Now of the bubble)", "goroutine scheduling at yield points (seeded)"],
            "not_run": ["network", "fsnotify watchers"],
        },
        "assumptions": [
            "interleavings are explored at the granularity of the verif yield points (one sits immediately before the cache insertion, one between database swap and purge)",
            "weighted answers are compared for membership in the declared candidate set only",
        ],
        "required_probes": {"quick": ["cache_hit", "cache_expired", "query_overlaps_reload", "reload_ok", "reload_completed_but_cleanup_failed"],
                            "thorough": ["cache_hit", "cache_expired", "query_overlaps_reload", "reload_ok", "reload_completed_but_cleanup_failed"]},
    },
    "C19": {
        "test": "TestC19",
        "race_tier": {"test": "TestC19Free", "race": True, "budget": {"quick": 10, "thorough": 240}},
        "level": "exploration",
        "budget": {"quick": 40, "thorough": 600},
        "rule": ("two populations. window: a timed history of AddSample / clock advance (sub-tick, tick, lifetime +- eps) / Get on the real "
                 "metrics.Stats with a seeded lifetime, the real cleaner goroutine scheduled at its tick; each Get is compared with a reference "
                 "window L <= M <= U (live samples must be reported, expired ones may linger until the next cleaner pass), and the window must be "
                 "empty after lifetime + 5.5 s of silence. server: the C05 workload with recording Stats and Logger; per query the counter deltas "
                 "and logger calls must be exactly what the message actually written dictates. Non-trivial = a Get with live samples (window) / "
                 "queries under pre-emption (server); distinct = schedule + event hash. A free-running tier (race_tier block) lets three writers add unique "
                 "values continuously across several real cleaner ticks (2 s windows, real clock, race detector on) while a reader takes snapshots: a sample whose "
                 "AddSample returned before the snapshot and that cannot have expired must be reported; every reported or exported value was added by somebody."),
        "components": {
            "real": ["metrics.Stats, slidingWindow and its cleaner goroutine (1 s ticker on the fake clock)",
                     "dnsserver.FBDNSDB.ServeDNS / writeAndLog counters and logger calls", "cdb / rocksdb drivers"],
            "stub": ["recording stats.Stats and dnsserver.Logger with per-goroutine attribution (server population)"],
            "simulated": ["clock and tickers", "goroutine scheduling at yield points (seeded)"],
            "not_run": ["prometheus exporter", "concurrent increments on metrics.Stats under the race detector (free-running tier, see C14)"],
        },
        "assumptions": [
            "a sample may linger until the first cleaner pass after its expiry (the one-second cleaner granularity is the code's design)",
            "an all-empty window exports zeros by design and is accepted as such",
        ],
        "required_probes": {"quick": ["get_with_live_samples", "get_with_lingering_expired_samples", "cleaner_passes"],
                            "thorough": ["get_with_live_samples", "get_with_lingering_expired_samples", "cleaner_passes"]},
    },
    "C16": {
        "test": "TestC16",
        "level": "exploration",
        "budget": {"quick": 25, "thorough": 400},
        "rule": ("each evaluation writes a real CDB file (explicit pairs with empty / repeated / long keys and values plus up to 3000 (quick) or "
                 "30000 (thorough) pseudo-random pairs; in half of the runs every pair is handed to Put in the same two buffers, overwritten for the next pair), then runs cdb.Dump and cdb.Make over simulated streams: read sizes cycled from "
                 "{asked,1,2,3,4,5,7,4095,4096,4097} (all legal under io.Reader) and, in the fault population, one read or write error at a seeded "
                 "offset. Without injected errors both must succeed and Make(Dump(file)) must be byte-identical to the file and the dump must list "
                 "exactly the written pairs in order; with an injected error a call may fail but never return nil with wrong bytes. Lookups "
                 "(Find/FindNext to EOF for every key, absent keys) are piggy-backed input generation. Non-trivial = segmented or faulty streams "
                 "or a file larger than one 4 KiB buffer; distinct = hash of file bytes and stream behaviour."),
        "components": {
            "real": ["go-cdb-mods writer (NewWriter/Put/Close) on a real file", "go-cdb-mods reader (Open = mmap, FindStart/FindNext)",
                     "cdb.Dump, cdb.Make"],
            "stub": [],
            "simulated": ["the io.Reader / io.Writer / io.WriteSeeker handed to Dump and Make (segmentation, injected errors)"],
            "not_run": ["no scheduler: nothing in this property is concurrent"],
        },
        "assumptions": ["the written file is produced by the package's own writer; Make is expected to lay out hash tables identically (cdbmake layout)"],
        "required_probes": {"quick": ["file_larger_than_one_buffer", "keys_looked_up", "pairs_written_from_reused_buffers"], "thorough": ["file_larger_than_one_buffer", "keys_looked_up", "pairs_written_from_reused_buffers"]},
    },
    "C15": {
        "test": "TestC15",
        "race_tier": {"test": "TestC15Free", "race": True, "budget": {"quick": 6, "thorough": 120}},
        "level": "exploration",
        "budget": {"quick": 40, "thorough": 600},
        "rule": ("each evaluation is a history of Add / Del / ExecuteBatch (duplicate and unsorted keys, adds and deletes) / read over 4 keys and 8 "
                 "values (empty, prefixes of each other, equal-length neighbours, values that look like length prefixes) issued by 1-3 caller tasks on "
                 "one real rdb.RDB, pre-empted by the seeded scheduler before the write lock and between the read and the write of every "
                 "read-modify-write; up to 3 low-level RocksDB calls fail in the fault population. One caller: model comparison over the whole key "
                 "alphabet after every operation; several callers: porcupine against the map-of-lists model (failed op = no-op). 1 in 8 runs ends with "
                 "backup + restore into another directory and a full dump comparison; 1 run in 6 has a private store, and there a history of one caller may also close the store and open it again "
                 "(a clean restart: RocksDB replays its log and flushes it into table files), after which the whole alphabet must read as before, and may empty a key with one batch; half of those histories are mostly about one key. A Close of a private store that fails is a violation. Non-trivial = more than two scheduling steps; distinct = schedule hash."),
        "components": {
            "real": ["rdb.RDB Add/Del/ExecuteBatch/Find/ForEach, Batch sort/merge/integrate, value-list codec", "RocksDB (cgo) primary database",
                     "rdb.Backup / rdb.Restore (RocksDB backup engine)"],
            "stub": ["error-injecting wrapper around the rdb.DBI handle"],
            "simulated": ["goroutine scheduling at yield points (seeded)"],
            "not_run": ["RocksDB background threads are real and unscheduled"],
        },
        "assumptions": ["the order of values inside one key is compared as a multiset, except that a single Add must append at the end (the batch path sorts with an unstable sort)"],
        "required_probes": {"quick": ["preempted_inside_read_modify_write", "backup_restore", "store_reopened", "batch_emptied_a_key"], "thorough": ["preempted_inside_read_modify_write", "backup_restore", "store_reopened", "batch_emptied_a_key"]},
    },
    "C07": {
        "test": "TestC07",
        "level": "exploration",
        "budget": {"quick": 45, "thorough": 900},
        "replay": "verdict",
        "rule": ("each evaluation compiles one generated data file (all 16 textual record types, few owner names so keys hold many values, several "
                 "maps with nested/adjacent subnets, optionally one rejected line) with the real compiler under one setting drawn from {cdb, rocksdb v1, "
                 "rocksdb v2} x {builder, batches with size 1..1000 and parallelism 0/1/2/4} x workers {1,2,3,8}; scanner, parser workers, collector and "
                 "batch writers are scheduled by the seeded scheduler at their channel operations and around the batch read-modify-write; the input "
                 "reader delivers seeded short reads and, in the fault population, fails at a seeded offset. The full dump of the product must equal "
                 "the multiset the line-by-line codec emits sequentially (plus range points and feature record); a rejected line or read error must "
                 "fail the compilation; a compilation that was handed a failing RocksDB call (1 run in 6 of the RocksDB targets) may fail, but if it reports success the database must be right; with no fault pending it must terminate (a state with nothing enabled and no timer is a deadlock). Thorough "
                 "tier: 1 in 30 runs compiles 70000-100000 records on real parallelism with the hooks in perturbation mode so that the bulk loader "
                 "splits into several buckets; 1 run in 12 (both tiers) compiles 1500-4000 records in batch mode (batch size 5/20/40, parallelism 0/2/4/8) free-running on four "
                 "real threads, so that many small batches sharing hot keys are in flight and interleavings finer than the yield points are reached. "
                 "Half of the builder runs on small files override the bulk loader's bucket parameters (minimum bucket size 1-40 items, at most 2-16 buckets, through the verif-only rdb.VerifSetBuckets), so that keys with many values straddle bucket boundaries in files of a few dozen lines. One file in three also holds lines of a single character (a record-type character or not), which every parser setting skips. Non-trivial = more than 3 lines; distinct = schedule hash + file seed."),
        "components": {
            "real": ["dnsdata.ParseStream / parse (scanner, worker pool)", "dnsdata/cdb.CreateCDBFromReader + go-cdb writer", "rdb.Compile: compileBuilder "
                     "(Builder, buckets, SST ingestion) and compileBatches (parallel ExecuteBatch under writeMutex)", "subnet rearranger (Accum.MarshalMap)", "RocksDB (cgo)"],
            "stub": [],
            "simulated": ["goroutine scheduling at the parser's and batch writers' yield points (seeded)", "input io.Reader (short reads, error at offset)",
                          "a failing low-level RocksDB call (GetMulti / ExecuteBatch / IngestSSTFiles / Put) inside the compilation, through the verif-only seam rdb.VerifSetCompileWrap"],
            "not_run": [],
        },
        "assumptions": ["which blocked parser worker receives a line is the Go runtime's choice: replay is 'same verdict for the same scenario', the oracle is schedule-insensitive",
                        "conflicting duplicate subnets (ill-formed, order dependent) are not generated"],
        "required_probes": {"quick": ["multi_value_keys", "free_running_big_file", "free_running_parallel_batches", "small_file_in_several_buckets"], "thorough": ["multi_value_keys", "free_running_big_file", "free_running_parallel_batches", "small_file_in_several_buckets"]},
    },
    "C08": {
        "test": "TestC08",
        "race_tier": {"test": "TestC08Free", "race": True, "budget": {"quick": 6, "thorough": 120}},
        "level": "exploration",
        "budget": {"quick": 45, "thorough": 900},
        "rule": ("each evaluation is a chain of 1-3 (thorough: 1-6) diffs: files are seeded selections (some records twice, changing subnet sets) from a "
                 "generated pool, preprocessed with the real preprocessor, the first compiled with the real compiler; every step applies the shuffled "
                 "multiset line diff with the real rdb.ApplyDiff on the real RocksDB and compares the full dump with a fresh compile of the target "
                 "(v1 and v2 keys). Fault population: an undeliverable line (delete of an absent value / absent key, malformed line, unknown "
                 "operation) at a seeded position, a failing low-level RocksDB call, or a reader error mid-diff - the call must fail and the dump must "
                 "equal the dump before. One chain in three (of those with two or more steps) sends all its diffs through ONE open updater, as a long-running publisher does; "
                 "intermediate states are then read through that handle, and after the final Close the directory is read again and must still be the database of the last delivered file. "
                 "A free-running tier (race_tier block) updates two databases with two diffs at once in one process under the race detector. Non-trivial = a non-empty diff was applied; distinct = pool seed + first selection + layout."),
        "components": {
            "real": ["rdb.ApplyDiff, dbdiff.Entry parsing/conversion, Batch integrate, value-list codec", "dnsdata preprocessor", "rdb.Compile (builder) for the start and the expected databases", "RocksDB (cgo)"],
            "stub": ["error-injecting wrapper around the updater's rdb.DBI"],
            "simulated": ["the diff io.Reader (short reads, error at an offset)", "history of successive diffs (seeded)"],
            "not_run": ["no scheduler: ApplyDiff is sequential; a concurrent secondary reader is not part of the property"],
        },
        "assumptions": ["equality is per key as a multiset of values; empty keys are absent"],
        "required_probes": {"quick": ["diff_applied", "failed_diff_left_db_unchanged", "range_point_churn", "diff_larger_than_8192_lines", "chain_through_one_handle_closed_and_reread"], "thorough": ["diff_applied", "failed_diff_left_db_unchanged", "range_point_churn", "diff_larger_than_8192_lines", "chain_through_one_handle_closed_and_reread"]},
    },
    "C09": {
        "test": "TestC09",
        "level": "exploration",
        "budget": {"quick": 35, "thorough": 600},
        "replay": "verdict",
        "rule": ("each evaluation streams one generated data file through the real dnsdata.PreprocReader with a consumer handing it buffers of seeded "
                 "sizes (1..4096, cycled), a source reader with seeded short reads and (fault population) an error at a seeded offset, and the "
                 "per-map range-point producer goroutines scheduled at their chunk sends. The output must contain exactly the lines a whole-buffer run "
                 "produces (nothing lost, duplicated or cut at a buffer boundary), compile (sequential codec, v1/v2 keys) to the same database as the "
                 "original, be idempotent at database level, report a source error, and terminate. One run in seven goes through Codec.Preprocess(r, w) with a destination that runs full after a seeded number of bytes (the last byte included): Preprocess must report an error. Every generated line is also round-tripped "
                 "through its text normal form: that part is input generation, not simulation, and is labelled so. Non-trivial = more than 3 lines; "
                 "distinct = schedule hash + file seed + buffer sizes."),
        "components": {
            "real": ["dnsdata.PreprocReader (Scan/Read), Codec.Preprocess", "Accum.OpenScanner / SubnetRanger.OpenScanner producer goroutines, rearranger", "per-line codec (DecodeLn / MarshalText / MarshalMap)"],
            "stub": [],
            "simulated": ["consumer buffer sizes and source reader behaviour (seeded)", "producer goroutine scheduling at chunk sends (seeded)"],
            "not_run": ["rdb.Compile of both texts (C07 relates the compiler to the sequential codec; a share of thorough runs could add it)"],
        },
        "assumptions": ["database equality is taken on the sequential codec's output, to which C07 relates the real compiler"],
        "required_probes": {"quick": ["lines_round_tripped", "range_point_lines"], "thorough": ["lines_round_tripped", "range_point_lines", "producer_chunk_scheduled"]},
    },
    "C11": {
        "test": "TestC11",
        "race_tier": {"test": "TestC11Free", "race": True, "budget": {"quick": 6, "thorough": 120}},
        "level": "exploration",
        "budget": {"quick": 40, "thorough": 600},
        "rule": ("each evaluation declares 1-12 candidate addresses (weights 0, 1, 2, 3, 10, 1000, 2^32-1; untagged and two locations; both families) plus "
                 "0-5 addresses for the NS/MX target, compiles them to a real CDB (9 runs in 10) or RocksDB with v1 / v2 keys (the answer code differs per storage layout) and lets 1-4 client tasks query concurrently (max answer 1..8 through "
                 "the request context) with the package's random source seeded from the scenario, so a run is repeatable. Every response is checked: "
                 "count = min(max, visible positive-weight candidates), no repetition, only declared visible candidates, weight 0 never served while the "
                 "name still exists, at most one glue address per family. One run in ten adds 20000 draws with max answer 1 and a chi-square test "
                 "against the weights at p < 1e-9. A free-running tier (race_tier block) lets eight goroutines draw from the real shared source on real cores under the race detector: "
                 "per-response invariants, race reports and proportionality of the pooled concurrent draws. Non-trivial = more than one candidate; distinct = schedule hash + random seed."),
        "components": {
            "real": ["db.Wrs weighted random sampling, db.lockedSource", "FindAnswer / AdditionalSectionForRecords", "dnsserver.FBDNSDB.ServeDNS, WithMaxAnswer", "cdb compiler and driver"],
            "stub": [],
            "simulated": ["random stream (seeded through the verif-only db.VerifSeedRand)", "goroutine scheduling of the concurrent clients (seeded)"],
            "not_run": ["fbserver.maxAnswerHandler (C20 covers the handler chain)"],
        },
        "assumptions": ["chi-square cells with an expectation below 5 are merged with their neighbour; the threshold p < 1e-9 keeps the false-alarm probability negligible over all runs"],
        "required_probes": {"quick": ["weight_zero_candidate_visible", "more_candidates_than_slots", "glue_checked", "proportionality_tested", "rocksdb_backend"],
                            "thorough": ["weight_zero_candidate_visible", "more_candidates_than_slots", "glue_checked", "proportionality_tested", "rocksdb_backend"]},
    },
    "C14": {
        "test": "TestC14",
        "race_tier": {"test": "TestC14Race", "budget": {"quick": 25, "thorough": 400}},
        "level": "exploration",
        "budget": {"quick": 40, "thorough": 600},
        "rule": ("tier (a), controlled schedules: the C05 server plus the real ReloadChan loop, the real PeriodicDBReload on the fake ticker, a stats "
                 "reporter calling ReportBackendStats, reload signals sent through ReloadChan by a task of their own (as Server.ReloadDB does on SIGHUP), the response cache on or off, and Close at a seeded position (after in-flight queries drained, "
                 "as the listeners do); violations are a quiescent state with unfinished tasks (deadlock), any panic, and any call that reaches a closed "
                 "storage back end (intercepted by the monitor; a crash on the real cgo/mmap back ends). Non-trivial = at least one pre-emption; "
                 "distinct = schedule hash. One run in 3 is a WHOLE-PROCESS run: the handler lives in a real fbserver.Server as cmd/dnsrocks builds it; reload requests travel as control files ('switchdb' with the new path, 'reload') plus the file-system events inotify would report, as events for the database path through the -watchdb loop, or as SIGHUP through Server.ReloadDB, all through the real watcher loops on simulated event channels; Server.LogMapAge and Server.DumpBackendStats run on their 10 s tickers and keep running after shutdown; a watcher loop that returns an error shuts the server down as Server.WatchDBAndReload does; shutdown is Server.Shutdown. In those runs spurious and duplicated file-system events, an error on a watcher's error channel (inotify overflow) and a second Server.Shutdown (SIGTERM after a watcher-induced shutdown) are part of the fault space. Tier (b), data races: see the race_tier block of this evidence; it also reports a lock-up found by looking at the goroutine stacks (some goroutine of the repository waits for a sync lock and none is running, runnable, sleeping or in a system call, twice 5 s apart) - a criterion that does not depend on the clock."),
        "components": {
            "real": REAL_SERVER + ["FBDNSDB.PeriodicDBReload, ReportBackendStats, Close", "ServeDNS with and without cache", "cdb and rocksdb drivers",
                                   "fbserver.Server (NewServer, ReloadDB, LogMapAge, DumpBackendStats, PeriodicDBReload, Shutdown) and the watcher loops watchDBAndReload / watchControlDirAndReload in whole-process runs"],
            "stub": ["recording Stats/Logger", "monitor wrapper around the real db.DBI"],
            "simulated": ["clock, tickers", "goroutine scheduling at yield points (seeded)"],
            "not_run": ["inotify itself (the watcher loops run on simulated event channels; prepareDBWatcher is not called)", "network"],
        },
        "assumptions": ["Close is called after in-flight queries finished (dns.Server.Shutdown waits for its handlers); reload loop, periodic reload and stats reporter keep running, as in the shipped binary"],
        "required_probes": {"quick": ["shutdown_reached", "periodic_reload_running", "stats_reporter_running", "async_signals_and_shutdown", "whole_process_run_with_shutdown", "shutdown_by_failed_watcher", "second_shutdown"],
                            "thorough": ["shutdown_reached", "periodic_reload_running", "stats_reporter_running", "async_signals_and_shutdown", "lowlevel_catchup_failed", "whole_process_run_with_shutdown", "shutdown_by_failed_watcher", "second_shutdown"]},
    },
    "C20": {
        "test": "TestC20",
        "race_tier": {"test": "TestC20Free", "race": True, "budget": {"quick": 6, "thorough": 120}},
        "level": "exploration",
        "budget": {"quick": 45, "thorough": 900},
        "rule": ("each evaluation starts the real fbserver.Server (handler chain as shipped: serveMux, maxAnswer, ANY refusal on/off, whoami on/off, "
                 "FBDNSDB) with 1-2 listener IPs of different max-answer settings on a simulated network, and lets 1-5 client tasks send up to 6 "
                 "queries each over UDP (no EDNS / 512 / 1232 / 4096) and TCP (several queries per connection), including ANY, whoami in lower and "
                 "mixed case, a message without a question and an answer larger than small UDP buffers; the network drops, duplicates, delays and "
                 "reorders datagrams and cuts TCP writes into 1..100-byte segments with delays, and in one run in four lets Accept on a TCP listener fail with a temporary error (EMFILE-like) at seeded moments, all from the scenario's seed. Every delivered response "
                 "is compared (after the same wire round trip) with what the bare FBDNSDB.ServeDNS gives for that message, client address, protocol "
                 "and listener max-answer; size/TC rules, ANY refusal, failure for the question-less message, consistency of duplicates; after the "
                 "last fault every outstanding query sent again must be answered within 5 simulated seconds, and (after accept errors) every TCP listener must still accept a connection and answer. Non-trivial = at least one response "
                 "compared; distinct = schedule hash."),
        "components": {
            "real": ["fbserver.NewServer/Start/Shutdown, serveMux, maxAnswerHandler, anyHandler, whoami.Handler", "miekg/dns.Server UDP and TCP read loops, framing, MsgAcceptFunc",
                     "dnsserver.FBDNSDB + cdb driver (also as the bare reference handler)"],
            "stub": ["metrics exporter", "logger, stats sink"],
            "simulated": ["network: UDP sockets and TCP listener/connections (simnet), loss, duplication, delay, reordering, segmentation", "clock, read and idle deadlines", "goroutine scheduling at yield points (seeded)"],
            "not_run": ["TLS listener, DNSSEC handler, dotTLSA handler, prometheus exporter"],
        },
        "assumptions": ["weighted answers are compared by membership", "a slow segmented TCP sender may run into the server's read timeout: liveness is asserted for an undisturbed network only"],
        "required_probes": {"quick": ["responses_compared", "udp_truncated", "big_answer_over_tcp", "any_refused", "whoami_answered", "no_question_message"],
                            "thorough": ["responses_compared", "udp_truncated", "big_answer_over_tcp", "any_refused", "whoami_answered", "no_question_message", "query_retried"]},
    },
}
