NOT_APPLICABLE = {
    "C01": "pure function of (data file, query, client address, backend); no schedule, clock, I/O behaviour or history for a simulator to control (DESIGN.md §8)",
    "C02": "equality of three pure functions of the same inputs; the per-request context cache is private to one request and goroutine (DESIGN.md §8)",
    "C03": "longest-prefix match is a function of (subnet set, address, prefix length) (DESIGN.md §8)",
    "C04": "metamorphic relation between two data files; no interleaving or history beyond what C05/C08 own (DESIGN.md §8)",
    "C10": "OPT/ECS echo and scope are functions of (query, map/subnet configuration) (DESIGN.md §8)",
    "C13": "well-formedness/no-panic for one message against a fixed database depends on message shape, not on schedules, clocks or faults (DESIGN.md §8)",
    "C17": "Bquote/Bunquote are functions of a byte string (DESIGN.md §8)",
    "C18": "SVCB parameter encoding is a function of the parameter text (DESIGN.md §8)",
}
# claimed by DESIGN.md but whose check is not registered yet
PENDING = {k: "claimed by design (DESIGN.md §5); check not yet registered in this commit" for k in
           ["C05", "C06", "C07", "C08", "C09", "C11", "C12", "C14", "C15", "C16", "C19", "C20"]}

LEVEL_TEXT = {
    "C06": {
        "text": "Seeded enumeration of operation-and-fault histories (reader sessions x reload kinds x shutdown position) under seeded interleavings, with an open/use/close monitor evaluated on every back-end call and a leak check at quiescence. Every kind of reload outcome the property lists is forced by the fault plan; a share of histories runs on the real cdb/rocksdb drivers, a third of those as whole-process runs (real fbserver.Server whose LogMapAge / DumpBackendStats tickers outlive Server.Shutdown); failing histories are minimised and replay exactly. Evidence, not proof: bounded histories (<= 5 reloads, <= 3 readers) and yield-point granularity.",
        "design_ref": "§5.2",
        "note": "Trusts the monitor DBI and the stub back end; real FBDNSDB/db.DB/db.Reload code runs unmodified apart from no-op yield hooks. The select tie in db.Reload is out of reach of the controlled scheduler.",
        "technique": "deterministic simulation: seeded scheduler + fault plan over an instrumented DBI, lifecycle monitor, rapid shrinking, exact replay",
    },
    "C05": {
        "text": "Seeded exploration of interleavings of in-flight queries with the steps of full/partial/failing reloads on the real handler and the real CDB and RocksDB drivers, generation-stamped data so that every response names the generation(s) it was computed from. Oracles: one stamp per response, a failed reload never becomes visible, a partial reload follows the path last switched to (decoy generation on the previous path), and the reload/query history is linearizable as a register (porcupine, event sequence numbers). Violations are minimised by rapid and replay exactly. A second, free-running tier (the property's quantifier names it) runs six query workers and one synchronous operator on real cores with the hooks in perturbation mode and judges only timing-independent invariants (a query started after a successful reload returned carries at least that generation, per-worker stamps never decrease, a failed generation is never served, one stamp per response, outcome of valid / missing / key-less switches, served generation at quiescence). One controlled run in four is a whole-process run: the handler inside a real fbserver.Server, reload requests as control files / file-system events / SIGHUP through the real watcher loops (simulated inotify channels), the server's own tickers running. Evidence, not proof.",
        "design_ref": "§5.1",
        "note": "Trusts the stamp extraction, the monitor wrapper and porcupine. Interleavings of the controlled tier are at yield-point granularity; the free-running tier reaches finer ones but does not replay instruction-exactly (its report is re-run from the same seed). RocksDB background threads are unscheduled. Three genuine defects of the RocksDB in-place catch-up are listed in known_findings.jsonl and matched by signature (backend + cause), never by property alone.",
        "technique": "deterministic simulation: seeded scheduler over real handler + real storage drivers, generation stamps, register linearizability (porcupine), fault plan for reloads (incl. low-level catch-up failure), exact replay; plus a seeded free-running stress tier with timing-independent invariants",
    },
    "C12": {
        "text": "Same simulated server with the response cache on: every response is compared with a cache-off handler of the same backend kind on the generation it carries (sections as multisets, owner case folded, weighted answers by membership), and the history must be linearizable as a register so that an old-generation answer served after a completed reload is a stale read. Query mix is concentrated on few cache keys (locations, types, unusual classes whose key texts collide, EDNS/ECS, case), LRU size from 1, clock jumps across the 1000 s entry lifetime. Evidence, not proof.",
        "design_ref": "§5.7",
        "note": "Reference handlers run outside the bubble on immutable copies; torn responses and failed-reload visibility of the RocksDB catch-up are C05's statements and are not judged here. Two genuine defects were found and fixed (cache key collision; stale insertion after purge).",
        "technique": "deterministic simulation: differential against a per-generation cache-off reference + register linearizability under seeded query/reload interleavings and clock jumps",
    },
    "C19": {
        "text": "Two simulated populations. (i) The real metrics.Stats sliding window and its cleaner goroutine on the fake clock, driven by seeded timed histories of AddSample / advance / Get with the cleaner scheduled at its tick; every export is compared with a reference window (live samples must be reported, expired ones may linger until the next cleaner pass, no value that was never added), plus bounded liveness (empty after lifetime + 5.5 s of silence). (ii) The simulated server with recording Stats and Logger: per query, counter deltas and logger calls must be exactly what the message written dictates, under concurrent clients and reloads. Evidence, not proof.",
        "design_ref": "§5.10",
        "note": "The reference window and the per-goroutine attribution of counter increments are trusted. Sum-of-increments under real parallelism is the business of the free-running race tier (C14). One genuine defect found and fixed (cleaner dropped live samples).",
        "technique": "deterministic simulation: fake clock + scheduled cleaner against a reference window; recording Stats/Logger against the sent response under seeded interleavings",
    },
    "C16": {
        "text": "The stream facet of the property is decided by simulating the I/O environment of cdb.Dump and cdb.Make: seeded legal segmentations of their readers and one injected read/write error per faulty run, on real files produced by the package's writer (up to 30000 pairs in the thorough tier). Fault-free runs must round-trip byte-identically and list the pairs in order; faulty runs may fail but never return nil with wrong data. The lookup facet (every key's values in order, then EOF; absent keys) is piggy-backed input generation and is labelled as such. Evidence, not proof.",
        "design_ref": "§5.12",
        "note": "No concurrency in this property, hence no scheduler. Trusts the reference listing built from the written pairs. One genuine defect found and fixed (Dump used bare Read).",
        "technique": "deterministic simulation of I/O streams (seeded segmentation + injected stream errors) with a byte-identical round-trip oracle",
    },
    "C07": {
        "text": "The real compilers (CDB, RocksDB builder and RocksDB batches) run inside the simulator with their scanner, parser workers, collector and batch writers scheduled by the seeded scheduler, over generated files covering all textual record types, under seeded compiler settings and a seeded input-stream behaviour (short reads, error at an offset). The full dump of the product is compared with the multiset the line-by-line codec emits sequentially; failing inputs must fail for every setting; termination is checked as absence of a quiescent state with unfinished tasks. Big files (several builder buckets) run free on real cores with perturbation hooks in the thorough tier. Evidence, not proof.",
        "design_ref": "§5.3",
        "note": "The reference shares the per-line codec with the code under test by design (the property is stated relative to it). Which blocked worker receives a line is the Go runtime's choice, so replay is verdict-level. RocksDB call errors are injected through the verif-only seam rdb.VerifSetCompileWrap (may fail, never wrong data). One genuine defect found and fixed (BatchNumParallel = 0 deadlock).",
        "technique": "deterministic simulation: seeded scheduling of the compiler's goroutines + seeded input stream faults, full-dump equality against the sequential codec, quiescence = deadlock",
    },
    "C15": {
        "text": "Histories of Add/Del/ExecuteBatch/read over small key and value alphabets on one real RocksDB-backed store, issued by 1-3 scheduled caller tasks that are pre-empted before the write lock and between the read and the write of every read-modify-write, with up to three failing low-level RocksDB calls in the fault population. Sequential histories are compared with a map-of-lists model after every operation over the whole alphabet; concurrent ones are checked with porcupine (failed operation = no-op); one run in eight ends with backup + restore and a full dump comparison. Evidence, not proof.",
        "design_ref": "§5.9",
        "note": "Value order inside a key is compared as a multiset except that a single Add must append (the batch path uses an unstable sort). The write lock is probed (TryLock), not modelled, so removing it is visible.",
        "technique": "deterministic simulation: seeded scheduling inside read-modify-write sections + injected RocksDB call errors, step-by-step model and porcupine linearizability",
    },
    "C08": {
        "text": "Chains of diffs between seeded selections of a generated pool (records twice under one key, changing subnet sets so range points move), preprocessed with the real preprocessor, applied in seeded line order with the real rdb.ApplyDiff on real RocksDB (v1 and v2 keys) and compared by full dump with a fresh compile of the target. Faults: an undeliverable line at a seeded position, a failing low-level RocksDB call, a reader error mid-diff - the diff must fail as a whole and the dump must equal the dump before it (a RocksDB error the operation survives must still give the right database). Evidence, not proof.",
        "design_ref": "§5.4",
        "note": "Sequential by nature (no scheduler): what is simulated is the history of diffs and the I/O and storage faults. Equality is per key as a multiset of values.",
        "technique": "deterministic simulation of diff histories with injected reader / RocksDB faults; full-dump equality and unchanged-on-failure oracle",
    },
    "C09": {
        "text": "The stream facet: the real PreprocReader under seeded consumer buffer sizes, seeded short reads and an injected error of the source reader, with the range-point producer goroutines scheduled at their chunk sends; the output must hold exactly the lines of a whole-buffer run, compile to the same database as the original (v1/v2), be idempotent, surface a source error and terminate. The per-line text normal form round trip is piggy-backed input generation and is labelled as such. Evidence, not proof.",
        "design_ref": "§5.5",
        "note": "Database equality is taken on the sequential codec's output (C07 relates the real compiler to it). Two genuine defects found and fixed: a swallowed source error (stream facet) and the lost wildcard of SVCB/HTTPS owners (found by the piggy-backed round trip).",
        "technique": "deterministic simulation of stream segmentation, source faults and producer scheduling around the streaming preprocessor; database-equality oracle",
    },
    "C11": {
        "text": "The random source of the weighted selection goes behind a verif-only seam and is seeded from the scenario, so every run, including the statistical one, is repeatable. 1-4 scheduled client tasks query seeded candidate sets (weights 0 .. 2^32-1, two locations, both families, max answer 1..8) on a real CDB; every response is checked for count, repetition, membership, weight-0 exclusion with the name still existing, and the one-per-family glue rule; one run in ten adds a chi-square test over 20000 draws at p < 1e-9. The same invariants run free under the race detector in C14's race tier. Evidence, not proof.",
        "design_ref": "§5.6",
        "note": "Holds on the unchanged tree. The chi-square threshold is fixed so that the false-alarm probability over all runs is negligible while realistic breakages (weight ignored, exponent inverted, first-candidate bias) give p far below it.",
        "technique": "deterministic simulation: seeded random stream + seeded scheduling of concurrent clients, per-response invariants and a seeded chi-square test",
    },
    "C14": {
        "text": "Two tiers. (a) Controlled schedules on the simulated server with the real reload loop, the real periodic reloader on the fake ticker, a stats reporter and Close at a seeded position, both backends: a quiescent state with unfinished tasks is a deadlock, any panic and any call reaching a closed storage back end is a crash. One run in three is a whole-process run (real fbserver.Server as cmd/dnsrocks wires it: watcher loops on simulated inotify channels with spurious / duplicated events and watcher errors, control files, SIGHUP, LogMapAge and DumpBackendStats tickers, Server.Shutdown once or twice). (b) Data races: the same kind of workload free-running on all cores under the Go race detector with the hooks in perturbation mode (no synchronisation), including the real fsnotify watcher, real metrics.Stats (counter = sum of increments) and the weighted-selection invariants. Evidence, not proof.",
        "design_ref": "§5.8",
        "note": "Tier (b) is the one place where replay means 'same report from a fresh process with the same seed'. Four genuine defects found and fixed (stats and reload after Close; races on IteratorPool.enabled and on the served DB path); the send-on-closed-channel panic of the periodic reloader at shutdown, a reader handed out after Close (LogMapAge after a watcher-induced shutdown) and the panic of a second Shutdown were found and fixed as well.",
        "technique": "deterministic simulation (seeded scheduler: deadlock/panic/use-after-close) plus a seeded free-running stress tier under the Go race detector",
    },
    "C20": {
        "text": "The real fbserver.Server with its shipped handler chain and the real miekg/dns server loops run on a simulated network (UDP loss, duplication, delay, reordering; TCP segmentation with delays, several queries per connection; read/idle deadlines on the fake clock) under the seeded scheduler; every delivered response is compared, after the same wire round trip, with the bare database handler for that message, client, protocol and listener max-answer, plus size/TC, ANY-refusal, question-less message and duplicate-consistency rules and bounded liveness after the last fault. Evidence, not proof.",
        "design_ref": "§5.11",
        "note": "The reference handler shares FBDNSDB with the system under test by design (the property is relative to it). TLS, DNSSEC and DoT-TLSA handlers are not started. Holds on the unchanged tree.",
        "technique": "deterministic simulation: whole server over a simulated UDP/TCP network with seeded faults and scheduling, differential against the bare handler, bounded liveness",
    },
}
