#!/usr/bin/env python3
"""Regenerates /verif/MANIFEST.json from lib/checkdefs.py and lib/manifest_static.py."""
import json, os, subprocess, sys
HERE = os.path.dirname(os.path.abspath(__file__))
sys.path.insert(0, HERE)
from checkdefs import CHECKS
from manifest_static import NOT_APPLICABLE, LEVEL_TEXT, PENDING

def hook_commits():
    out = subprocess.run(["git", "-C", "/repo", "log", "--format=%h %s"], stdout=subprocess.PIPE, text=True).stdout
    return [l.split()[0] for l in out.splitlines() if " verif hook:" in " " + l]

checks = []
for pid in sorted(CHECKS):
    d = CHECKS[pid]
    lt = LEVEL_TEXT[pid]
    checks.append({
        "property_id": pid,
        "quick_cmd": "./check %s --tier quick" % pid,
        "thorough_cmd": "./check %s --tier thorough" % pid,
        "evidence_file": "/verif/evidence/%s.json" % pid,
        "replay_cmd_template": "./check replay {path}",
        "engine": "dsim",
        "level_claimed": {"category": d["level"], "text": lt["text"], "design_ref": lt["design_ref"]},
        "level_note": lt["note"],
        "technique": lt["technique"],
    })
na = [dict(property_id=k, reason=v) for k, v in sorted(NOT_APPLICABLE.items())]
na += [dict(property_id=k, reason=v) for k, v in sorted(PENDING.items()) if k not in CHECKS]
m = {
    "version": 1,
    "setup_cmd": "./check build",
    "hooks": {
        "guard": "verif",
        "enable": "go1.26.8 test -c -tags verif ./checks in /verif/sim (go.mod: replace github.com/facebookincubator/dns/dnsrocks => /repo/dnsrocks), GOFLAGS=-mod=mod GOPROXY=off GOSUMDB=off GOTOOLCHAIN=local",
        "baseline_off_cmd": "./baseline_off.sh",
        "source_commits": hook_commits(),
        "add_only": True,
    },
    "engines": [{
        "name": "dsim", "path": "/verif/sim",
        "serves_properties": sorted(CHECKS),
        "kind_free_text": "deterministic simulation with fault injection: real goroutines of the real code inside one testing/synctest bubble per run, a seeded cooperative scheduler parking tasks at verif-tagged yield points (locks probed with TryLock, never modelled), fake clock, monitored storage back ends with a reload fault plan, rapid v1.3.0 as the sole source of scenario and schedule choices (shrinking), replay files re-executed in a fresh process",
    }],
    "checks": checks,
    "not_applicable": na,
    "notes": ("python3 driver ./check; every check rebuilds the harness against /repo's working tree. Exit 2 = trouble of the machinery (never a violation). "
              "Hooks: no line of the original repository is rewritten or deleted by a hook commit; commit 31eaf43 re-orders two hook lines of an earlier hook commit "
              "relative to one line that a fix: commit had added (git shows that as a moved line). Genuine defects found: 19 fixed by fix: commits, the rest listed in known_findings.jsonl; see DESIGN.md sections 10-12."),
}
json.dump(m, open(os.path.join(os.path.dirname(HERE), "MANIFEST.json"), "w"), indent=1)
print("wrote MANIFEST.json: %d checks, %d not applicable" % (len(checks), len(na)))
