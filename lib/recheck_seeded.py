#!/usr/bin/env python3
"""Re-runs the checks against the kept property-breaking changes of /verif/seeded (after the
machinery or /repo changed).

  python3 lib/recheck_seeded.py [ids ...] [--base <commit>] [--budget S] [--workers N] [--jobs J]

Each change is applied to a scratch worktree of /repo (never to /repo itself), the check(s) named in
its meta.json are run with VERIF_REPO pointing there, the verdicts are written back to meta.json
under "recheck", and the worktree is removed. Exit status 1 when a change is missed.
"""
import concurrent.futures
import hashlib
import glob
import json
import os
import shutil
import subprocess
import sys
import time

VERIF = os.path.dirname(os.path.dirname(os.path.abspath(__file__)))


def one(sid, base, budget, workers):
    d = os.path.join(VERIF, "seeded", sid)
    meta = json.load(open(os.path.join(d, "meta.json")))
    wt = "/tmp/recheck-%s" % sid
    subprocess.run(["git", "-C", "/repo", "worktree", "remove", "--force", wt], stdout=subprocess.DEVNULL, stderr=subprocess.DEVNULL)
    shutil.rmtree(wt, ignore_errors=True)
    p = subprocess.run(["git", "-C", "/repo", "worktree", "add", "-q", "--detach", wt, base], stdout=subprocess.PIPE, stderr=subprocess.STDOUT, text=True)
    if p.returncode != 0:
        return sid, {"error": p.stdout}
    out = {}
    try:
        p = subprocess.run(["git", "apply", "--3way", os.path.join(d, "patch.diff")], cwd=wt, stdout=subprocess.PIPE, stderr=subprocess.STDOUT, text=True)
        if p.returncode != 0:
            return sid, {"error": "patch does not apply on %s: %s" % (base, p.stdout[-300:])}
        env = dict(os.environ, VERIF_REPO=wt, VERIF_RACE_BUDGET_S="20")
        for c in sorted(set(k.split()[0] for k in meta.get("checks", {meta["property"]: {}}))):  # keys may carry a remark after the id
            t0 = time.time()
            p = subprocess.run([os.path.join(VERIF, "check"), c, "--budget", str(budget), "--workers", str(workers)], env=env,
                               stdout=subprocess.PIPE, stderr=subprocess.STDOUT, text=True, errors="replace")
            sigs = sorted(set(l.split("signature=")[1].split()[0] for l in p.stdout.splitlines() if l.startswith("violation kind=")))
            verdict = {0: "MISSED", 1: "CAUGHT", 2: "TROUBLE"}.get(p.returncode, "rc=%d" % p.returncode)
            out[c] = {"verdict": verdict, "signatures": sigs, "seconds": round(time.time() - t0)}
            if p.returncode == 2:
                out[c]["trouble"] = p.stdout[-800:]
    finally:
        subprocess.run(["git", "-C", "/repo", "worktree", "remove", "--force", wt], stdout=subprocess.DEVNULL, stderr=subprocess.DEVNULL)
        shutil.rmtree(wt, ignore_errors=True)
        tag = hashlib.sha1(os.path.abspath(wt).encode()).hexdigest()[:8]
        for f in glob.glob(os.path.join(VERIF, ".build", "*%s*" % tag)):
            os.remove(f)
    meta["recheck"] = {"base": base, "checks": out}
    json.dump(meta, open(os.path.join(d, "meta.json"), "w"), indent=1)
    return sid, out


def main():
    a = sys.argv[1:]
    ids, base, budget, workers, jobs = [], "HEAD", 30, 4, 3
    i = 0
    while i < len(a):
        if a[i] == "--base":
            base = a[i + 1]; i += 2
        elif a[i] == "--budget":
            budget = int(a[i + 1]); i += 2
        elif a[i] == "--workers":
            workers = int(a[i + 1]); i += 2
        elif a[i] == "--jobs":
            jobs = int(a[i + 1]); i += 2
        else:
            ids.append(a[i]); i += 1
    if not ids:
        ids = sorted(x for x in os.listdir(os.path.join(VERIF, "seeded")) if os.path.exists(os.path.join(VERIF, "seeded", x, "meta.json")))
    base = subprocess.run(["git", "-C", "/repo", "rev-parse", base], stdout=subprocess.PIPE, text=True).stdout.strip()
    missed = 0
    with concurrent.futures.ThreadPoolExecutor(jobs) as ex:
        for sid, out in ex.map(lambda s: one(s, base, budget, workers), ids):
            print(sid, json.dumps(out))
            sys.stdout.flush()
            if "error" in out or not any(v.get("verdict") == "CAUGHT" for v in out.values()):
                missed += 1
    sys.exit(1 if missed else 0)


if __name__ == "__main__":
    main()
