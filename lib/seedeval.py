#!/usr/bin/env python3
"""Confirms a sub-agent's property-breaking change and runs the checks against it.

  python3 lib/seedeval.py <agent worktree> <property> <seed id> [--checks C05,C12] [--budget S] [--workers N] [--skip-confirm]

Steps (everything happens in scratch worktrees under /tmp, never in /repo):
 1. take SEED_PATCH.diff, SEED_NOTES.md and the untracked demonstration files from the agent's worktree;
 2. in a fresh worktree of /repo HEAD: demonstration must PASS without the patch and FAIL with it;
    the pinned suite (default go) and the db/dnsserver/fbserver/... package tests (go1.26.8) must pass with it;
 3. run the check(s) with VERIF_REPO pointing at the patched worktree;
 4. store /verif/seeded/<id>/{patch.diff, demo/, NOTES.md, meta.json}.
"""
import json
import os
import shutil
import subprocess
import sys
import time

VERIF = os.path.dirname(os.path.dirname(os.path.abspath(__file__)))
ENV = dict(os.environ, GOFLAGS="-mod=mod", GOPROXY="off", GOSUMDB="off", GOTOOLCHAIN="local")


def sh(cmd, cwd=None, env=None, timeout=3600):
    p = subprocess.run(cmd, cwd=cwd, env=env or ENV, shell=isinstance(cmd, str), stdout=subprocess.PIPE, stderr=subprocess.STDOUT, text=True, timeout=timeout)
    return p.returncode, p.stdout


def main():
    a = sys.argv[1:]
    src, prop, sid = a[0], a[1], a[2]
    checks, budget, workers, skip = [prop], "30", "12", False
    i = 3
    while i < len(a):
        if a[i] == "--checks":
            checks = a[i + 1].split(","); i += 2
        elif a[i] == "--budget":
            budget = a[i + 1]; i += 2
        elif a[i] == "--workers":
            workers = a[i + 1]; i += 2
        elif a[i] == "--skip-confirm":
            skip = True; i += 1
        else:
            i += 1
    out = os.path.join(VERIF, "seeded", sid)
    os.makedirs(os.path.join(out, "demo"), exist_ok=True)
    patch = os.path.join(src, "SEED_PATCH.diff")
    if not os.path.exists(patch) or os.path.getsize(patch) == 0:
        rc, diff = sh("git diff -- . ':!*_test.go' ':!SEED_*'", cwd=src)
        open(patch, "w").write(diff)
    shutil.copy(patch, os.path.join(out, "patch.diff"))
    if os.path.exists(os.path.join(src, "SEED_NOTES.md")):
        shutil.copy(os.path.join(src, "SEED_NOTES.md"), os.path.join(out, "NOTES.md"))
    rc, untracked = sh("git ls-files --others --exclude-standard", cwd=src)
    demos = [f for f in untracked.split() if not f.startswith("SEED_") and (f.endswith(".go") or f.endswith(".mod") or f.endswith(".sum"))]
    for f in demos:
        dst = os.path.join(out, "demo", f)
        os.makedirs(os.path.dirname(dst), exist_ok=True)
        shutil.copy(os.path.join(src, f), dst)

    wt = "/tmp/seedchk-%s" % sid
    mod = wt + "-mod"
    sh(["git", "-C", "/repo", "worktree", "remove", "--force", wt])
    shutil.rmtree(wt, ignore_errors=True)
    shutil.rmtree(mod, ignore_errors=True)
    rc, o = sh(["git", "-C", "/repo", "worktree", "add", "-q", "--detach", wt, "HEAD"])
    assert rc == 0, o
    meta = {"id": sid, "property": prop, "demo_files": demos, "ran": []}
    try:
        os.makedirs(mod)
        tmpl = open("/tmp/agentkit/go.mod.template").read().replace("WORKTREE", wt)
        open(os.path.join(mod, "go.mod"), "w").write(tmpl)
        shutil.copy(os.path.join(wt, "dnsrocks/go.sum"), os.path.join(mod, "go.sum"))
        for f in demos:
            dst = os.path.join(wt, f)
            os.makedirs(os.path.dirname(dst), exist_ok=True)
            shutil.copy(os.path.join(src, f), dst)
        pkgs = sorted(set("github.com/facebookincubator/dns/" + os.path.dirname(f) for f in demos if f.endswith("_test.go") and f.startswith("dnsrocks/") and "go-cdb-mods" not in f))
        cdbdemo = any("go-cdb-mods" in f for f in demos)
        demo_cmd = "go1.26.8 test -vet=off -count=1 -run 'Seed|Demo|seed|demo' " + " ".join(pkgs)

        def run_demo():
            outs, rcs = [], []
            if pkgs:
                rc, o = sh(demo_cmd, cwd=mod)
                rcs.append(rc); outs.append(o)
            if cdbdemo:
                rc, o = sh("go test -mod=mod -vet=off -count=1 -run 'Seed|Demo|seed|demo' ./...", cwd=os.path.join(wt, "dnsrocks/go-cdb-mods"))
                rcs.append(rc); outs.append(o)
            return (max(rcs) if rcs else -1), "\n".join(outs)

        if not skip:
            rc0, o0 = run_demo()
            meta["demo_without_change"] = "PASS" if rc0 == 0 else "FAIL(rc=%d)" % rc0
            meta["ran"].append(demo_cmd + "   # without the change: " + meta["demo_without_change"])
        rc, o = sh(["git", "apply", patch], cwd=wt)
        if rc != 0:
            meta["error"] = "patch does not apply: " + o[-500:]
            print(json.dumps(meta, indent=1))
            return
        if not skip:
            rc1, o1 = run_demo()
            meta["demo_with_change"] = "FAIL" if rc1 != 0 else "PASS(!)"
            meta["demo_failure_excerpt"] = "\n".join(l for l in o1.splitlines() if "FAIL" in l or "Error" in l or "---" in l)[:1500]
            meta["ran"].append(demo_cmd + "   # with the change: " + meta["demo_with_change"])
            # existing tests with the change (demonstration files removed)
            for f in demos:
                os.remove(os.path.join(wt, f))
            rc, o = sh("go test -mod=mod -vet=off -count=1 ./... 2>&1 | grep -v 'no test files' | grep -v '^#' | grep -v 'link:'", cwd=os.path.join(wt, "dnsrocks"))
            def failures(text):
                return [l for l in text.splitlines() if l.startswith("--- FAIL") or l.startswith("panic:") or (l.startswith("FAIL\t") and "[build failed]" not in l and "[setup failed]" not in l)]
            bad = failures(o)
            rc2, o2 = sh("go test -mod=mod -vet=off -count=1 ./...", cwd=os.path.join(wt, "dnsrocks/go-cdb-mods"))
            bad += failures(o2)
            rc3, o3 = sh("go1.26.8 test -vet=off -count=1 github.com/facebookincubator/dns/dnsrocks/db github.com/facebookincubator/dns/dnsrocks/dnsserver "
                         "github.com/facebookincubator/dns/dnsrocks/fbserver github.com/facebookincubator/dns/dnsrocks/whoami github.com/facebookincubator/dns/dnsrocks/logger", cwd=mod)
            f3 = failures(o3)
            for attempt in range(3):
                # the repository's own dnsserver tests leak a periodic reloader (TestFBDNSDBBadPathDontWrite) that
                # panics on a nil DB when the package run takes longer than 10 s on a loaded machine: retry alone
                if not f3 or not all("nil pointer" in l or "dnsrocks/dnsserver" in l for l in f3):
                    break
                rc3, o3 = sh("go1.26.8 test -vet=off -count=1 github.com/facebookincubator/dns/dnsrocks/dnsserver", cwd=mod)
                f3 = failures(o3)
            bad += f3
            meta["existing_tests_with_change"] = "PASS" if not bad else "FAIL: " + "; ".join(bad)[:600]
            meta["ran"].append("pinned suite (default go) + go1.26.8 tests of db dnsserver fbserver whoami logger, with the change: " + meta["existing_tests_with_change"])
        # the checks
        meta["checks"] = {}
        env = dict(os.environ, VERIF_REPO=wt, VERIF_RACE_BUDGET_S="20")
        for c in checks:
            t0 = time.time()
            p = subprocess.run([os.path.join(VERIF, "check"), c, "--budget", budget, "--workers", workers], env=env,
                               stdout=subprocess.PIPE, stderr=subprocess.STDOUT, text=True)
            sigs = sorted(set(l.split("signature=")[1].split()[0] for l in p.stdout.splitlines() if l.startswith("violation kind=")))
            details = [l.strip()[:300] for l in p.stdout.splitlines() if l.strip().startswith("detail:")][:2]
            verdict = {0: "MISSED", 1: "CAUGHT", 2: "TROUBLE"}.get(p.returncode, "rc=%d" % p.returncode)
            meta["checks"][c] = {"verdict": verdict, "signatures": sigs, "details": details, "seconds": round(time.time() - t0),
                                 "cmd": "VERIF_REPO=<patched worktree> ./check %s --budget %s --workers %s" % (c, budget, workers)}
            if p.returncode == 2:
                meta["checks"][c]["trouble"] = p.stdout[-1200:]
    finally:
        sh(["git", "-C", "/repo", "worktree", "remove", "--force", wt])
        shutil.rmtree(wt, ignore_errors=True)
        shutil.rmtree(mod, ignore_errors=True)
        import glob, hashlib
        tag = hashlib.sha1(os.path.abspath(wt).encode()).hexdigest()[:8]
        for f in glob.glob(os.path.join(VERIF, ".build", "*%s*" % tag)):
            os.remove(f)
    json.dump(meta, open(os.path.join(out, "meta.json"), "w"), indent=1)
    print(json.dumps({k: meta[k] for k in meta if k not in ("demo_failure_excerpt",)}, indent=1))


if __name__ == "__main__":
    main()
