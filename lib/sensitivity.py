#!/usr/bin/env python3
"""Sensitivity self-test: applies each catalogued property-breaking edit to a scratch worktree of
/repo (never to /repo itself), runs the check of the property it breaks with VERIF_REPO pointing
at the worktree, and expects exit status 1. The worktree and its build output are removed
afterwards.

  python3 lib/sensitivity.py [--only ID[,ID...]] [--budget S] [--workers N] [--list]
"""
import json
import os
import shutil
import subprocess
import sys
import time

VERIF = os.path.dirname(os.path.dirname(os.path.abspath(__file__)))

# (id, property, file (relative to repo root), old, new, description)
CATALOGUE = [
    ("c05-path-never-updated", "C05", "dnsrocks/dnsserver/db.go",
     "\th.dbConfig.Path = newPath\n", "",
     "a full reload never records the new path: later partial reloads act on the old one"),
    ("c05-swap-on-validation-error", "C05", "dnsrocks/db/db.go",
     "\t\t\tglog.Errorf(\"Key validation for New DBI failed, using old DB instead\")\n\t\t\treturn f, err\n",
     "\t\t\tglog.Errorf(\"Key validation for New DBI failed, using old DB instead\")\n\t\t\tif newDBI == f.dbi {\n\t\t\t\treturn f, err\n\t\t\t}\n\t\t\treturn &DB{dbi: newDBI}, nil\n",
     "a new database lacking the validation key is switched to anyway"),
    ("c06-refcount-not-released", "C06", "dnsrocks/db/db.go",
     "\tr.db.refCount--\n", "",
     "a reader release does not drop the reference: replaced back ends leak"),
    ("c06-late-backend-leak", "C06", "dnsrocks/db/db.go",
     "\t\tif localDBI != nil && destroyNewDbi && localDBI != f.dbi {\n\t\t\tlocalDBI.Close()\n\t\t} else {",
     "\t\tif localDBI != nil && destroyNewDbi && localDBI != f.dbi {\n\t\t} else {",
     "a back end that arrives after the reload timed out is never closed"),
    ("c06-destroy-ignores-readers", "C06", "dnsrocks/db/db.go",
     "\tf.destroyable = true\n\tif f.refCount == 0 {", "\tf.destroyable = true\n\tif f.refCount >= 0 {",
     "Destroy closes the back end although readers still hold it"),
    ("c07-final-flush-dropped", "C07", "dnsrocks/dnsdata/rdb/rdb_compiler.go",
     "\tif !rdbBatch.IsEmpty() {\n\t\tlog.Println(\"Flushing batch\")", "\tif false && !rdbBatch.IsEmpty() {\n\t\tlog.Println(\"Flushing batch\")",
     "the last partial batch is never written"),
    ("c07-batch-write-unlocked", "C07", "dnsrocks/dnsdata/rdb/rdb.go",
     "\trdb.writeMutex.Lock()\n\tdefer rdb.writeMutex.Unlock()\n\tdbValues, errors := rdb.db.GetMulti(rdb.readOptions, uniqueKeys)", "\tdbValues, errors := rdb.db.GetMulti(rdb.readOptions, uniqueKeys)",
     "ExecuteBatch does its read-modify-write without the write lock: concurrent batches lose values"),
    ("c15-deletes-before-adds", "C15", "dnsrocks/dnsdata/rdb/rdb.go",
     None, None, "batch integration applies deletions before additions (invisible to consistent line diffs, hence a C15 case)"),
    ("c08-delvalue-drops-tail", "C08", "dnsrocks/dnsdata/rdb/rdb_util.go",
     "\t\t\t\tcopy(data[i:], data[i+chunkLen:])\n", "\t\t\t\tcopy(data[i:], data[i+chunkLen-1:])\n",
     "removing a value that is not the last one corrupts the rest of the list"),
    ("c09-accumulator-dropped", "C09", "dnsrocks/dnsdata/preproc.go",
     "\tresult := p.accumulatorScanner.Scan()\n", "\tresult := p.accumulatorScanner.Scan() && p.accumulatorScanner.Scan()\n",
     "every other derived range-point line is skipped"),
    ("c11-weight-inverted", "C11", "dnsrocks/db/wrs.go",
     "1.0/float64(rec.Weight))", "float64(rec.Weight))",
     "the sampling exponent is the weight instead of its inverse"),
    ("c11-max-answers-off-by-one", "C11", "dnsrocks/db/wrs.go",
     "\t\tif len(items) < w.MaxAnswers {", "\t\tif len(items) <= w.MaxAnswers {",
     "one address too many is kept when max answer > 1"),
    ("c12-no-generation-bump", "C12", "dnsrocks/dnsserver/db.go",
     "\th.cacheGen++\n", "",
     "the cache generation is not bumped on reload: a late insertion survives the purge"),
    ("c12-key-without-type", "C12", "dnsrocks/dnsserver/handler.go",
     "cacheKey = fmt.Sprintf(\"%.3d/%d/%d/%s\", loc.LocID, state.QType(), state.QClass(), state.Name())",
     "cacheKey = fmt.Sprintf(\"%.3d/%d/%d/%s\", loc.LocID, 0, state.QClass(), state.Name())",
     "the cache key ignores the query type"),
    ("c14-close-twice-chan", "C14", "dnsrocks/dnsserver/db.go",
     "\tcase <-h.done:\n\t\t// the DB has been closed, its backend must not be touched any more\n\t\treturn\n\tdefault:\n\t}\n", "\tdefault:\n\t}\n",
     "backend statistics are requested from a closed back end again"),
    ("c15-add-unlocked", "C15", "dnsrocks/dnsdata/rdb/rdb.go",
     "\trdb.writeMutex.Lock()\n\tdefer rdb.writeMutex.Unlock()\n\n\toldData, err := rdb.db.Get(rdb.readOptions, key)", "\toldData, err := rdb.db.Get(rdb.readOptions, key)",
     "Add does its read-modify-write without the write lock"),
    ("c15-del-removes-all-equal", "C15", "dnsrocks/dnsdata/rdb/rdb_util.go",
     "\t\t\treturn data[:l-chunkLen], nil\n", "\t\t\tif rest, err := delValue(data[:l-chunkLen], value); err == nil {\n\t\t\t\treturn rest, nil\n\t\t\t}\n\t\t\treturn data[:l-chunkLen], nil\n",
     "Del removes every equal value instead of exactly one"),
    ("c16-findnext-skips", "C16", "dnsrocks/go-cdb-mods/cdb.go",
     None, None, "FindNext returns the same value again (loop counter not advanced)"),
    ("c19-queries-counted-twice-on-hit", "C19", "dnsrocks/dnsserver/handler.go",
     "\t\t\t\th.stats.IncrementCounter(\"DNS_cache.hit\")\n", "\t\t\t\th.stats.IncrementCounter(\"DNS_cache.hit\")\n\t\t\t\th.stats.IncrementCounter(\"DNS_queries\")\n",
     "a cache hit counts the query twice"),
    ("c19-window-keeps-expired", "C19", "dnsrocks/metrics/swindow.go",
     "\t\t\t\tif val.expires.Before(time.Now()) {", "\t\t\t\tif val.expires.Add(5 * time.Second).Before(time.Now()) {",
     "expired samples are reported for five more seconds"),
    ("c20-maxanswer-not-set", "C20", "dnsrocks/fbserver/maxanswer.go",
     "\tctx = dnsserver.WithMaxAnswer(ctx, mh.maxAnswer)\n", "\tctx = dnsserver.WithMaxAnswer(ctx, dnsserver.DefaultMaxAnswer)\n",
     "the listener's max-answer setting never reaches the database handler"),
    ("c20-any-falls-through", "C20", "dnsrocks/fbserver/any.go",
     "\tif r.Question[0].Qtype != dns.TypeANY {", "\tif r.Question[0].Qtype != dns.TypeANY || len(r.Question[0].Name) > 12 {",
     "ANY queries for longer names are not refused"),
    ("c20-whoami-case-sensitive", "C20", "dnsrocks/whoami/common.go",
     "strings.ToLower(r.Question[0].Name) != wh.whoamiDomain", "r.Question[0].Name != strings.ToLower(wh.whoamiDomain)",
     "the whoami name is matched case-sensitively"),
]


def special(mid, root):
    """Edits that are easier to express as code."""
    if mid == "c15-deletes-before-adds":
        p = os.path.join(root, "dnsrocks/dnsdata/rdb/rdb.go")
        s = open(p).read()
        a = s.index("\t\tfor ; aOffset < len(batch.addedPairs) && bytes.Equal(batch.addedPairs[aOffset].key, key); aOffset++ {")
        b = s.index("\t\tfor ; dOffset < len(batch.deletedPairs) && bytes.Equal(batch.deletedPairs[dOffset].key, key); dOffset++ {")
        end = s.index("\t}\n\n\tif aOffset != len(batch.addedPairs)")
        adds, dels = s[a:b], s[b:end]
        s = s[:a] + dels + adds + s[end:]
        open(p, "w").write(s)
        return True
    if mid == "c16-findnext-skips":
        p = os.path.join(root, "dnsrocks/go-cdb-mods/cdb.go")
        s = open(p).read()
        i = s.index("\tfor context.loop < context.hslots {")
        j = s.index("\t\tcontext.loop++\n", i)
        # advance only every other time for keys whose first byte is odd
        s = s[:j] + "\t\tif len(key) == 0 || key[0]%2 == 0 || context.kpos%3 != 0 {\n\t\t\tcontext.loop++\n\t\t}\n" + s[j + len("\t\tcontext.loop++\n"):]
        open(p, "w").write(s)
        return True
    return False


def main():
    a = sys.argv[1:]
    only, budget, workers = None, "25", "16"
    i = 0
    while i < len(a):
        if a[i] == "--only":
            only = set(a[i + 1].split(",")); i += 2
        elif a[i] == "--budget":
            budget = a[i + 1]; i += 2
        elif a[i] == "--workers":
            workers = a[i + 1]; i += 2
        elif a[i] == "--list":
            for m in CATALOGUE:
                print(m[0], m[1], "-", m[5])
            return
        else:
            i += 1
    results = []
    for mid, prop, rel, old, new, desc in CATALOGUE:
        if only and mid not in only:
            continue
        wt = "/tmp/verif-sens-%s" % mid
        subprocess.run(["git", "-C", "/repo", "worktree", "remove", "--force", wt], stdout=subprocess.DEVNULL, stderr=subprocess.DEVNULL)
        shutil.rmtree(wt, ignore_errors=True)
        subprocess.run(["git", "-C", "/repo", "worktree", "add", "-q", "--detach", wt, "HEAD"], check=True)
        t0 = time.time()
        try:
            if old is None:
                ok = special(mid, wt)
            else:
                p = os.path.join(wt, rel)
                s = open(p).read()
                ok = s.count(old) == 1
                if ok:
                    open(p, "w").write(s.replace(old, new))
            if not ok:
                results.append((mid, prop, "EDIT-DOES-NOT-APPLY", 0))
                continue
            env = dict(os.environ, VERIF_REPO=wt, VERIF_RACE_BUDGET_S="15")
            p = subprocess.run([os.path.join(VERIF, "check"), prop, "--budget", budget, "--workers", workers], env=env,
                               stdout=subprocess.PIPE, stderr=subprocess.STDOUT, text=True)
            kinds = sorted(set(l.split("signature=")[1].split()[0] for l in p.stdout.splitlines() if l.startswith("violation kind=")))
            verdict = {1: "CAUGHT", 0: "MISSED", 2: "TROUBLE"}.get(p.returncode, "rc=%d" % p.returncode)
            if p.returncode == 2:
                sys.stderr.write(p.stdout[-1500:] + "\n")
            results.append((mid, prop, verdict + " " + ",".join(kinds)[:160], time.time() - t0))
        finally:
            subprocess.run(["git", "-C", "/repo", "worktree", "remove", "--force", wt], stdout=subprocess.DEVNULL, stderr=subprocess.DEVNULL)
            shutil.rmtree(wt, ignore_errors=True)
            import glob, hashlib
            tag = hashlib.sha1(os.path.abspath(wt).encode()).hexdigest()[:8]
            for f in glob.glob(os.path.join(VERIF, ".build", "*%s*" % tag)):
                os.remove(f)
        print("%-36s %-4s %-60s %5.0fs" % results[-1], flush=True)
    missed = [r for r in results if not r[2].startswith("CAUGHT")]
    print("caught %d of %d" % (len(results) - len(missed), len(results)))
    json.dump([dict(id=r[0], property=r[1], verdict=r[2], seconds=round(r[3])) for r in results],
              open(os.path.join(VERIF, "evidence", "sensitivity.json"), "w"), indent=1)
    sys.exit(1 if missed else 0)


if __name__ == "__main__":
    main()
