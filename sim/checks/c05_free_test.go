package checks

import (
	"context"
	"encoding/json"
	"errors"
	"fmt"
	"math/rand"
	"os"
	"path/filepath"
	"sync"
	"sync/atomic"
	"testing"
	"time"

	"github.com/facebookincubator/dns/dnsrocks/db"
	"github.com/facebookincubator/dns/dnsrocks/dnsserver"
	"github.com/facebookincubator/dns/dnsrocks/dnsserver/stats"
	"github.com/facebookincubator/dns/dnsrocks/verifhook"

	"dsim/core"
	"dsim/gen"
	"dsim/sched"
)

// ---- C05, free-running tier --------------------------------------------------------------------
//
// The controlled tier pre-empts only at yield points. This tier runs query workers and one
// operator on real cores (hooks in perturbation mode) and judges only what does not depend on
// timing: the operator is the only source of reloads and calls them synchronously, so "the last
// reload that returned success" is a number every worker can read before it starts a query.
//
//	visibility   a query that starts after Reload(g) returned nil carries a stamp >= g
//	monotonic    the stamps one worker sees never decrease
//	failed       a generation whose reload reported failure is never served
//	one stamp    every record of a response carries the same generation (on RocksDB a response that
//	             overlaps an in-place catch-up is C05's recorded finding and is only counted)
//	outcome      a switch to a valid fresh path succeeds, a switch to a missing path or to a
//	             database without the validation key fails
//	quiescent    once everything stopped, the served generation is the last successful one

type freeStats struct {
	Slices     int            `json:"slices"`
	Queries    int64          `json:"queries"`
	Stamped    int64          `json:"stamped_responses"`
	Overlapped int64          `json:"responses_overlapping_a_reload"`
	Reloads    map[string]int `json:"reloads"`
	TornKnown  int64          `json:"torn_responses_overlapping_rocksdb_catch_up"`
	Backends   map[string]int `json:"backends"`
	Violations []string       `json:"violations"`
	WallS      float64        `json:"wall_s"`
	Seed       uint64         `json:"seed"`
}

func freeSliceC05(t *testing.T, backend string, seed uint64, d time.Duration, fs *freeStats) {
	dir, err := os.MkdirTemp("", "c05free-")
	if err != nil {
		t.Fatal(err)
	}
	defer os.RemoveAll(dir)
	w := &srvWorld{backend: backend, v2: backend == "rdb2", dir: dir, farm: gen.TheFarm(), diskGen: map[string]int{}, diskNK: map[string]bool{}}
	p0 := w.fresh("db")
	if err := w.create(p0, 1, false); err != nil {
		t.Fatal(err)
	}
	dbc := dnsserver.DBConfig{Path: p0, Driver: srvDriver(backend), ReloadTimeout: 120 * time.Second, ValidationKey: gen.ValidationKey(w.v2)}
	fb, err := dnsserver.NewFBDNSDBBasic(dnsserver.HandlerConfig{}, dbc, dnsserver.CacheConfig{}, &dnsserver.DummyLogger{}, &stats.DummyStats{})
	if err != nil {
		t.Fatal(err)
	}
	if err := fb.Load(); err != nil {
		t.Fatal(err)
	}
	var vmu sync.Mutex
	violate := func(kind, format string, a ...interface{}) {
		vmu.Lock()
		if len(fs.Violations) < 20 {
			fs.Violations = append(fs.Violations, kind+"|backend="+backendClass(backend)+": "+fmt.Sprintf(format, a...))
		}
		vmu.Unlock()
	}
	var okGen atomic.Int64 // generation of the last reload that returned success
	okGen.Store(1)
	var opSeq atomic.Int64 // odd while a reload call is in progress
	var cuSeq atomic.Int64 // odd while a partial reload (an in-place catch-up on RocksDB) is in progress
	var failed sync.Map    // generation -> label of the reload that reported failure
	stop := make(chan struct{})
	var wg sync.WaitGroup
	var queries, stamped, overlapped, tornKnown int64
	ask := func(r *rand.Rand) (int, bool) {
		qi := r.Intn(len(gen.Queries))
		wr := newRecWriter(gen.Clients[r.Intn(len(gen.Clients))])
		_, err := fb.ServeDNS(context.Background(), wr, gen.MakeQuery(qi, r.Intn(2) == 0, "", uint16(r.Intn(65536))))
		if err != nil || len(wr.msgs) != 1 {
			violate("query-failed", "query %v: err=%v, %d messages written", gen.Queries[qi], err, len(wr.msgs))
			return 0, false
		}
		st := gen.Stamps(wr.msgs[0])
		switch len(st) {
		case 0:
			return 0, false
		case 1:
			for g := range st {
				return g, true
			}
		}
		return -2, true
	}
	for i := 0; i < 6; i++ {
		wg.Add(1)
		go func(i int) {
			defer wg.Done()
			r := rand.New(rand.NewSource(int64(seed)*100 + int64(i)))
			last := 0
			for {
				select {
				case <-stop:
					return
				default:
				}
				s0, c0 := opSeq.Load(), cuSeq.Load()
				lo := int(okGen.Load())
				g, ok := ask(r)
				s1, c1 := opSeq.Load(), cuSeq.Load()
				atomic.AddInt64(&queries, 1)
				if !ok {
					continue
				}
				atomic.AddInt64(&stamped, 1)
				over := s0 != s1 || s0%2 == 1
				if over {
					atomic.AddInt64(&overlapped, 1)
				}
				if g == -2 {
					if backend != "cdb" && (c0 != c1 || c0%2 == 1) {
						atomic.AddInt64(&tornKnown, 1) // the recorded RocksDB finding; needs a catch-up in flight
						continue
					}
					violate("torn-response", "worker %d: one response carries records of several generations (reload in flight: %v)", i, over)
					continue
				}
				if g < 0 {
					continue // records without a generation stamp only
				}
				if label, bad := failed.Load(g); bad {
					violate("failed-reload-visible", "worker %d answered from generation %d whose reload (%v) reported failure", i, g, label)
				}
				if g < lo {
					violate("stale-read", "worker %d: query started after the reload of generation %d had returned success, answered from generation %d", i, lo, g)
				}
				if g < last {
					violate("went-backwards", "worker %d saw generation %d after generation %d", i, g, last)
				}
				last = g
			}
		}(i)
	}
	reloads := map[string]int{}
	wg.Add(1)
	go func() {
		defer wg.Done()
		r := rand.New(rand.NewSource(int64(seed)))
		g := 1
		served := p0
		for {
			select {
			case <-stop:
				return
			default:
			}
			g++
			var sig dnsserver.ReloadSignal
			label, wantOK := "", true
			switch k := r.Intn(20); {
			case k < 7:
				p := w.fresh("db")
				if err := w.create(p, g, false); err != nil {
					return
				}
				label, sig = "full", *dnsserver.NewFullReloadSignal(p)
			case k < 10:
				label, wantOK, sig = "full-missing", false, *dnsserver.NewFullReloadSignal(filepath.Join(dir, fmt.Sprintf("missing%d", g)))
				failed.Store(g, label)
			case k < 13:
				p := w.fresh("db")
				failed.Store(g, "full-nokey") // before the data exists anywhere
				if err := w.create(p, g, true); err != nil {
					return
				}
				label, wantOK, sig = "full-nokey", false, *dnsserver.NewFullReloadSignal(p)
			default:
				if err := w.update(served, g, false); err != nil {
					return
				}
				label, sig = "partial", *dnsserver.NewPartialReloadSignal()
			}
			opSeq.Add(1)
			if label == "partial" {
				cuSeq.Add(1)
			}
			err := fb.Reload(sig)
			if label == "partial" {
				cuSeq.Add(1)
			}
			opSeq.Add(1)
			reloads[label]++
			switch {
			case err == nil && wantOK:
				okGen.Store(int64(g))
				if sig.Kind == dnsserver.FullReload {
					served = sig.Payload
				}
			case err == nil && !wantOK:
				violate("invalid-reload-succeeded", "reload %s of generation %d reported success", label, g)
			case err != nil && wantOK:
				violate("valid-reload-failed", "reload %s of generation %d failed: %v", label, g, err)
			case label == "full-nokey" && !errors.Is(err, db.ErrValidationKeyNotFound):
				violate("wrong-error", "reload of a database without the validation key failed with %v", err)
			}
			time.Sleep(time.Duration(r.Intn(2000)) * time.Microsecond)
		}
	}()
	time.Sleep(d)
	close(stop)
	wg.Wait()
	r := rand.New(rand.NewSource(int64(seed) + 7))
	for i := 0; i < 20; i++ {
		if g, ok := ask(r); ok && g != int(okGen.Load()) {
			violate("quiescent-generation-wrong", "with everything stopped a query is answered from generation %d, the last successful reload was of generation %d", g, okGen.Load())
			break
		}
	}
	fb.Close()
	fs.Queries += queries
	fs.Stamped += stamped
	fs.Overlapped += overlapped
	fs.TornKnown += tornKnown
	for k, v := range reloads {
		fs.Reloads[k] += v
	}
}

func TestC05Free(t *testing.T) {
	env := core.GetEnv("C05")
	if os.Getenv("VERIF_RACE_TIER") == "" {
		t.Skip("the free-running tier is run by ./check")
	}
	verifhook.Attach(sched.Perturb{})
	defer verifhook.Attach(nil)
	fs := &freeStats{Backends: map[string]int{}, Reloads: map[string]int{}, Seed: env.Seed}
	start := time.Now()
	deadline := start.Add(time.Duration(env.BudgetS * float64(time.Second)))
	backends := []string{"cdb", "rdb2", "cdb", "rdb1"}
	for i := 0; time.Now().Before(deadline); i++ {
		b := backends[i%len(backends)]
		freeSliceC05(t, b, env.Seed*1000+uint64(i), 1200*time.Millisecond, fs)
		fs.Slices++
		fs.Backends[b]++
	}
	fs.WallS = time.Since(start).Seconds()
	data, _ := json.MarshalIndent(fs, "", " ")
	_ = os.WriteFile(filepath.Join(env.OutDir, "race.json"), data, 0o644)
	for _, v := range fs.Violations {
		t.Errorf("RACE-TIER-VIOLATION %s", v)
	}
}
