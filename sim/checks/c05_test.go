package checks

import (
	"errors"
	"fmt"
	"os"
	"sort"
	"strings"
	"testing"
	"time"

	"github.com/anishathalye/porcupine"
	"pgregory.net/rapid"

	"github.com/facebookincubator/dns/dnsrocks/db"

	"dsim/core"
	"dsim/gen"
)

// ---- C05: a reload switches generations atomically and visibly -------------------------------

type regIn struct {
	write bool
	val   int
}

var registerModel = porcupine.Model{
	Init: func() interface{} { return 1 },
	Step: func(state, input, output interface{}) (bool, interface{}) {
		in := input.(regIn)
		if in.write {
			return true, in.val
		}
		return output.(int) == state.(int), state
	},
	DescribeOperation: func(input, output interface{}) string {
		in := input.(regIn)
		if in.write {
			return fmt.Sprintf("reload->gen%d", in.val)
		}
		return fmt.Sprintf("query=gen%v", output)
	},
}

func backendClass(b string) string {
	if b == "cdb" {
		return "cdb"
	}
	return "rocksdb"
}

// opClass reduces a reload label to the class used in signatures.
func opClass(o *OpRec, timeoutMs int) string {
	c := "partial"
	if o.Op.Full && !(o.Op.Fault == "" && o.Op.SamePath == 2) {
		c = "full" // a full reload naming the served path is an in-place reload like a partial one
	}
	if o.Op.Fault != "" {
		c += "-" + o.Op.Fault
	}
	if o.Op.DelayMs > timeoutMs || errors.Is(o.Err, db.ErrReloadTimeout) {
		// the timeout is what the server reported, whatever else was wrong with the target
		c = strings.SplitN(c, "-", 2)[0] + "-timeout"
	}
	return c
}

// judgeGenerations is the oracle shared by C05 (cache off) and C12 (cache on): single stamp,
// no phantom or decoy generation, register linearizability.
func judgeGenerations(sc *SrvScenario, h *SrvHistory, res *core.Result, staleKind string) {
	byGen := map[int]*OpRec{}
	for _, o := range h.Ops {
		if o.Op.Kind == "reload" {
			byGen[o.Gen] = o
		}
	}
	overlapping := func(q *QRec) []string {
		var out []string
		for _, o := range h.Ops {
			if o.Op.Kind != "reload" || o.Inv == 0 {
				continue
			}
			ret := o.Ret
			if ret == 0 {
				ret = ^uint64(0)
			}
			if q.Inv < ret && q.Ret > o.Inv {
				out = append(out, opClass(o, sc.TimeoutMs))
			}
		}
		sort.Strings(out)
		return out
	}
	bc := backendClass(sc.Backend)
	// a partial reload, or a switch to a fresh path, whose target is valid and that was not slowed
	// down beyond the timeout must succeed (this is what makes "a later partial reload follows the
	// database last switched to" visible when the server forgot or mis-recorded the path). A full
	// reload naming a path used before may legitimately be refused; if it reports success, the
	// register oracle holds it to its word.
	for _, o := range h.Ops {
		if o.Op.Kind == "reload" && o.Done && !o.OK && o.Op.Fault == "" && o.Op.SamePath == 0 && !errors.Is(o.Err, db.ErrReloadTimeout) && o.Op.DelayMs <= sc.TimeoutMs && o.Err != errServerGone {
			kind := "partial"
			if o.Op.Full {
				kind = "full"
			}
			res.Add("valid-reload-failed", fmt.Sprintf("valid-reload-failed|backend=%s|%s", bc, kind),
				fmt.Sprintf("reload #%d (%s) of a valid, readable target holding the validation key failed: %v", o.Idx, o.Label, o.Err))
		}
	}
	var ops []porcupine.Operation
	for _, o := range h.Ops {
		if o.Op.Kind == "reload" && o.Done && o.OK {
			ops = append(ops, porcupine.Operation{ClientId: 1000, Input: regIn{true, o.Gen}, Call: int64(o.Inv), Output: 0, Return: int64(o.Ret)})
		}
	}
	for _, q := range h.Queries {
		if q.Ret == 0 {
			continue // never returned (the run ended in a deadlock)
		}
		ov := overlapping(q)
		if len(ov) > 0 {
			res.Probe("query_overlaps_reload")
		}
		switch {
		case q.Stamp == -2:
			during := "no-catch-up"
			if catchUpInside(h, q) {
				during = "catch-up"
			} else if sc.Cache && bc == "rocksdb" && q.Counters["DNS_cache.hit"] > 0 {
				// with the cache on, the torn response of a query that was in flight across an in-place
				// catch-up (the recorded finding) is served again, byte for byte, to a later query that hits
				// its cache entry before the reload has returned: the same finding, one hop further
				for _, e := range h.Queries {
					if e != q && e.Stamp == -2 && e.Q.Q == q.Q.Q && e.Ret != 0 && e.Ret < q.Ret && catchUpInside(h, e) && fmt.Sprint(e.Stamps) == fmt.Sprint(q.Stamps) {
						during = "catch-up"
						res.Probe("torn_response_of_a_catch_up_served_again_from_the_cache")
					}
				}
			}
			sig := fmt.Sprintf("torn-response|backend=%s|during=%s", bc, during)
			_ = uniq
			res.Add("torn-response", sig, fmt.Sprintf("client %d query %d (%s) carries records of several generations %v", q.Client, q.Idx, describeQ(q), q.Stamps))
			continue
		case q.Stamp < 0:
			continue
		}
		if q.Stamp >= 900 {
			res.Add("followed-stale-path", "followed-stale-path|backend="+bc,
				fmt.Sprintf("client %d query %d answered from decoy generation %d: a partial reload acted on a path that is no longer the served one", q.Client, q.Idx, q.Stamp))
			continue
		}
		if q.Stamp != h.InitGen {
			o := byGen[q.Stamp]
			if o == nil {
				res.Add("unknown-generation", "unknown-generation", fmt.Sprintf("client %d query %d carries stamp %d that no reload published", q.Client, q.Idx, q.Stamp))
				continue
			}
			if !o.OK {
				// which in-place catch-up exposed the generation? the first one that ended after it was
				// published; it belongs to this reload or to an earlier one that had timed out
				exposed := "none"
				first := ^uint64(0)
				for _, cu := range h.Mon.CatchUps {
					// the point at which the call into RocksDB happened: known exactly on the real
					// back end; on the stub it lies somewhere inside [Start, End]
					at := cu.At
					if at == 0 {
						at = cu.End
					}
					if at > o.Pub && at < first {
						var k int
						if _, err := fmt.Sscanf(cu.Ctx, "%d:", &k); err == nil && k < len(h.Ops) {
							exposed = opClass(h.Ops[k], sc.TimeoutMs)
							first = at
						}
					}
				}
				sig := fmt.Sprintf("failed-reload-visible|backend=%s|exposed-by-catch-up-of=%s", bc, exposed)
				res.Add("failed-reload-visible", sig, fmt.Sprintf("client %d query %d answered from generation %d, published for reload #%d (%s) which failed: %v",
					q.Client, q.Idx, q.Stamp, o.Idx, o.Label, o.Err))
				continue
			}
		}
		ops = append(ops, porcupine.Operation{ClientId: q.Client, Input: regIn{false, 0}, Call: int64(q.Inv), Output: q.Stamp, Return: int64(q.Ret)})
	}
	r := porcupine.CheckOperationsTimeout(registerModel, ops, 5*time.Second)
	switch r {
	case porcupine.Unknown:
		res.Probe("porcupine_unknown")
	case porcupine.Illegal:
		// diagnose: a read of v although a different successful write completed before the read
		// started and after v's own write completed (stale), or v's write started after the read
		// returned (future)
		detail := "history of reloads and queries is not linearizable as a register"
		kind := staleKind
		for _, q := range h.Queries {
			if q.Stamp < 0 || q.Ret == 0 {
				continue
			}
			var wv *OpRec
			if q.Stamp != h.InitGen {
				wv = byGen[q.Stamp]
			}
			if wv != nil && wv.OK && uint64(wv.Inv) > q.Ret {
				detail = fmt.Sprintf("client %d query %d returned generation %d before reload #%d publishing it had started", q.Client, q.Idx, q.Stamp, wv.Idx)
				kind = "future-read"
				break
			}
			for _, o := range h.Ops {
				if o.Op.Kind == "reload" && o.OK && o.Gen != q.Stamp && o.Ret < q.Inv && (wv == nil || wv.Ret <= o.Inv || wv.Gen < o.Gen) && o.Gen > q.Stamp {
					detail = fmt.Sprintf("client %d query %d (%s) started after reload #%d (generation %d, %s) had returned successfully but was answered from generation %d",
						q.Client, q.Idx, describeQ(q), o.Idx, o.Gen, o.Label, q.Stamp)
					break
				}
			}
		}
		res.Add(kind, fmt.Sprintf("%s|backend=%s", kind, bc), detail)
	}
}

// judgeAgainstGeneration is the second half of "every individual response is computed entirely
// from one generation": a response whose records all carry stamp g must be the response a
// never-reloaded handler on generation g gives to that request. The location maps differ between
// generations, so a response built from the location of one generation and the records of another
// is caught although its records agree on one stamp.
func judgeAgainstGeneration(sc *SrvScenario, h *SrvHistory, res *core.Result) {
	noKeyOf := map[int]bool{}
	for _, o := range h.Ops {
		if o.Op.Kind == "reload" {
			noKeyOf[o.Gen] = o.Op.Fault == "nokey"
		}
	}
	bc := backendClass(sc.Backend)
	for _, q := range h.Queries {
		if q.Ret == 0 || q.Resp == nil || q.Stamp < 0 || q.Stamp >= 900 {
			continue
		}
		if _, published := noKeyOf[q.Stamp]; !published && q.Stamp != h.InitGen {
			continue
		}
		want := refResponse(sc.Backend, q.Stamp, noKeyOf[q.Stamp], q)
		d := ""
		if q.Resp.Truncated && want != nil && want.Truncated {
			continue // which records survive truncation depends on value order (see C12)
		}
		d = diffResponses(q.Resp, want, gen.Weighted(q.Q.Q), gen.WeightedExtra(q.Q.Q))
		if d == "" {
			res.Probe("response_equals_its_generation")
			continue
		}
		during := "no-catch-up"
		if catchUpInside(h, q) {
			during = "catch-up"
		}
		res.Add("response-not-of-one-generation", fmt.Sprintf("response-not-of-one-generation|backend=%s|during=%s", bc, during),
			fmt.Sprintf("client %d query %d (%s from %s): all records carry generation %d but the response differs from what generation %d answers: %s",
				q.Client, q.Idx, describeQ(q), gen.Clients[q.Q.Client%len(gen.Clients)], q.Stamp, q.Stamp, d))
	}
}

// catchUpInside tells whether an in-place catch-up took effect while the query was in flight.
func catchUpInside(h *SrvHistory, q *QRec) bool {
	for _, cu := range h.Mon.CatchUps {
		if cu.At != 0 {
			if q.Inv <= cu.At && cu.At <= q.Ret {
				return true
			}
		} else if q.Inv < cu.End && q.Ret > cu.Start {
			return true
		}
	}
	return false
}

func uniq(in []string) []string {
	var out []string
	for i, s := range in {
		if i == 0 || s != in[i-1] {
			out = append(out, s)
		}
	}
	return out
}

func describeQ(q *QRec) string {
	if q.Req == nil || len(q.Req.Question) == 0 {
		return "?"
	}
	return fmt.Sprintf("%s type %d", q.Req.Question[0].Name, q.Req.Question[0].Qtype)
}

func srvPopulation(sc *SrvScenario) string {
	for _, o := range sc.Ops {
		if o.Kind == "reload" && (o.Fault != "" || o.DelayMs > 0) {
			return "faults"
		}
	}
	return "fault-free"
}

func drawC05(rt *rapid.T, tier string) SrvScenario {
	o := srvDrawOpts{backends: []string{"cdb", "cdb", "cdb", "cdb", "rdb1", "rdb2"}, maxClients: 4, maxQueries: 6, maxOps: 5,
		faults: []string{"missing", "garbage", "nokey", "inject", "lowio"}, proc: 4, cleanupDirect: true}
	if tier == "thorough" {
		o.backends = []string{"cdb", "cdb", "rdb1", "rdb2"}
		o.maxQueries = 8
		o.maxOps = 6
	}
	sc := drawSrv(rt, o)
	// the property does not depend on the response cache: one run in three has it switched on (the
	// generation oracles are the same; the differential against a cache-off handler is C12's)
	if rapid.IntRange(0, 2).Draw(rt, "cache_on") == 0 || os.Getenv("VERIF_C05_CACHE") != "" {
		sc.Cache = true
		sc.LRUSize = rapid.SampledFrom([]int{2, 1024}).Draw(rt, "lru")
		// few cache keys, so that a later query meets what an earlier one left in the cache
		pool := []int{rapid.SampledFrom([]int{0, 1, 2, 3, 5, 6, 8, 9, 10, 11, 19}).Draw(rt, "focus_q1")} // stamped, not weighted
		if rapid.Bool().Draw(rt, "two_keys") {
			pool = append(pool, rapid.IntRange(0, len(gen.Queries)-1).Draw(rt, "focus_q2"))
		}
		cl := rapid.IntRange(0, len(gen.Clients)-1).Draw(rt, "focus_client")
		for ci := range sc.Clients {
			for qi := range sc.Clients[ci] {
				sc.Clients[ci][qi].Q = pool[(ci+qi+sc.Clients[ci][qi].Q)%len(pool)]
				sc.Clients[ci][qi].Client = cl
			}
		}
	}
	return sc
}

func runC05(t *testing.T, sc SrvScenario, keep bool) *core.Result {
	res := &core.Result{}
	h := runSrv(t, &sc, keep, res, nil)
	if res.HarnessErr != "" || h.Sim == nil {
		return res
	}
	judgeGenerations(&sc, h, res, "stale-read")
	if sc.Cache {
		res.Probe("response_cache_on")
	} else {
		judgeAgainstGeneration(&sc, h, res)
	}
	if sc.Proc {
		res.Probe("whole_process_run")
		// "a reload that fails leaves the server answering from the old generation as if nothing
		// happened": a reload request that takes the watcher loop down takes the whole server down
		// (Server.WatchControlDirAndReload shuts it down when the loop returns an error)
		for _, wd := range h.WatcherDied {
			res.Add("failed-reload-stops-server", "failed-reload-stops-server|"+strings.SplitN(wd, ":", 2)[0],
				"a reload request that could not be honoured ended the watcher loop, upon which the server shuts itself down: "+wd)
		}
	}
	res.Population = srvPopulation(&sc)
	res.Nontrivial = res.Probes["query_overlaps_reload"] > 0 || res.Switches > 0
	return res
}

func TestC05(t *testing.T) {
	core.Explore(t, core.Check[SrvScenario]{Property: "C05", Draw: drawC05, Run: runC05, Summary: summarySrv, Batch: 40})
}
