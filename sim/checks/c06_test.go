package checks

import (
	"errors"
	"fmt"
	"os"
	"path/filepath"
	"strings"
	"sync"
	"testing"
	"time"

	"pgregory.net/rapid"

	"github.com/facebookincubator/dns/dnsrocks/db"
	"github.com/facebookincubator/dns/dnsrocks/dnsserver"
	"github.com/facebookincubator/dns/dnsrocks/dnsserver/stats"

	"dsim/core"
	"dsim/mon"
	"dsim/sched"
)

// ---- C06: no backend is used after close, closed twice, or leaked -------------------------

// C06Reload is one operator operation.
type C06Reload struct {
	Full    bool `json:"full"`     // switch to another path (else: partial reload of the served path)
	HasKey  bool `json:"has_key"`  // the target generation holds the validation key
	OpenErr bool `json:"open_err"` // the target cannot be opened / caught up with
	Inject  bool `json:"inject"`   // the back end's Reload call itself fails (injected I/O error)
	DelayMs int  `json:"delay_ms"` // how long the back end's Reload takes (fake time); timeout is TimeoutMs
	After   bool `json:"after"`    // the delay happens after the new back end was opened (else before)
}

// Kind names the operation class of the property statement.
func (o C06Reload) Kind(timeoutMs int, alwaysNew bool) string {
	var b strings.Builder
	if o.Full {
		b.WriteString("new")
	} else if alwaysNew {
		b.WriteString("samepath-newbackend")
	} else {
		b.WriteString("same")
	}
	switch {
	case o.Inject:
		b.WriteString("/inject-error")
	case o.OpenErr:
		b.WriteString("/open-error")
	case !o.HasKey:
		b.WriteString("/validation-fail")
	default:
		b.WriteString("/ok")
	}
	if o.DelayMs > timeoutMs {
		b.WriteString("/timeout-late")
	} else if o.DelayMs > 0 {
		b.WriteString("/slow")
	}
	return b.String()
}

// C06Session is one acquire / use* / release of a reader.
type C06Session struct {
	SleepMs int `json:"sleep_ms"` // think time before acquiring
	Uses    int `json:"uses"`
	HoldMs  int `json:"hold_ms"` // time the reader is held between uses
}

// C06Scenario is one simulated history.
type C06Scenario struct {
	AlwaysNew  bool           `json:"always_new"` // CDB-like driver: Reload always returns a new back end
	TimeoutMs  int            `json:"timeout_ms"`
	Readers    [][]C06Session `json:"readers"`
	Reloads    []C06Reload    `json:"reloads"`
	ShutdownAt int            `json:"shutdown_at"` // shutdown happens before reload #ShutdownAt (len = after all)
	ViaChan    bool           `json:"via_chan"`    // reloads go through ReloadChan and the real loop goroutine
	Tape       []uint8        `json:"tape"`
	TapeSeed   uint64         `json:"tape_seed"`
	Calm       int            `json:"calm"`
	// Real, when set, replaces the stub history by a history on the real cdb / rocksdb drivers
	// (queries through ServeDNS are the readers), judged by the same monitor.
	Real *SrvScenario `json:"real,omitempty"`
}

var c06Delays = []int{0, 0, 0, 7, 23, 61, 97, 181}

func drawC06(rt *rapid.T, tier string) C06Scenario {
	share := 12
	if tier == "thorough" {
		share = 3
	}
	if rapid.IntRange(0, share-1).Draw(rt, "real") == 0 {
		o := srvDrawOpts{backends: []string{"cdb", "cdb", "rdb1", "rdb2"}, maxClients: 3, maxQueries: 4, maxOps: 5,
			faults: []string{"missing", "garbage", "nokey", "inject", "lowio", "lowio"}, proc: 3, cleanup: true, signals: true, periodic: true}
		sc := drawSrv(rt, o)
		pos := rapid.IntRange(0, len(sc.Ops)).Draw(rt, "close_at")
		sc.Ops = append(append([]SrvOp{}, sc.Ops[:pos]...), SrvOp{Kind: "close"})
		return C06Scenario{Real: &sc}
	}
	sc := C06Scenario{
		AlwaysNew: rapid.Bool().Draw(rt, "always_new"),
		TimeoutMs: 50,
		ViaChan:   rapid.IntRange(0, 3).Draw(rt, "via_chan") == 3,
		Calm:      rapid.IntRange(0, 2).Draw(rt, "calm"),
		TapeSeed:  rapid.Uint64().Draw(rt, "tape_seed"),
	}
	genSession := rapid.Custom(func(rt *rapid.T) C06Session {
		return C06Session{
			SleepMs: rapid.SampledFrom([]int{0, 0, 3, 29, 53, 71}).Draw(rt, "sleep"),
			Uses:    rapid.IntRange(0, 3).Draw(rt, "uses"),
			HoldMs:  rapid.SampledFrom([]int{0, 0, 0, 11, 67}).Draw(rt, "hold"),
		}
	})
	sc.Readers = rapid.SliceOfN(rapid.SliceOfN(genSession, 1, 3), 0, 3).Draw(rt, "readers")
	genReload := rapid.Custom(func(rt *rapid.T) C06Reload {
		return C06Reload{
			Full:    rapid.Bool().Draw(rt, "full"),
			HasKey:  rapid.IntRange(0, 3).Draw(rt, "has_key") != 0,
			OpenErr: rapid.IntRange(0, 5).Draw(rt, "open_err") == 0,
			Inject:  rapid.IntRange(0, 7).Draw(rt, "inject") == 0,
			DelayMs: rapid.SampledFrom(c06Delays).Draw(rt, "delay"),
			After:   rapid.Bool().Draw(rt, "after"),
		}
	})
	sc.Reloads = rapid.SliceOfN(genReload, 0, 5).Draw(rt, "reloads")
	no := len(sc.Reloads)
	sc.ShutdownAt = rapid.IntRange(0, no).Draw(rt, "shutdown_at")
	sc.Tape = rapid.SliceOfN(rapid.Uint8(), 0, 96).Draw(rt, "tape")
	return sc
}

func summaryC06(sc C06Scenario) interface{} {
	if sc.Real != nil {
		return map[string]interface{}{"real_backend": summarySrv(*sc.Real)}
	}
	var ops []string
	for i, o := range sc.Reloads {
		if i == sc.ShutdownAt {
			ops = append(ops, "SHUTDOWN")
		}
		ops = append(ops, o.Kind(sc.TimeoutMs, sc.AlwaysNew))
	}
	if sc.ShutdownAt >= len(sc.Reloads) {
		ops = append(ops, "SHUTDOWN")
	}
	var rd []string
	for _, r := range sc.Readers {
		var s []string
		for _, x := range r {
			s = append(s, fmt.Sprintf("acq+%duse", x.Uses))
		}
		rd = append(rd, strings.Join(s, ","))
	}
	return map[string]interface{}{"operator": ops, "readers": rd, "via_chan": sc.ViaChan, "tape_len": len(sc.Tape)}
}

// runC06Real judges a history on the real storage drivers with the same life-cycle monitor.
func runC06Real(t *testing.T, sc *SrvScenario, keep bool) *core.Result {
	res := &core.Result{Population: "real-backend/" + srvPopulation(sc)}
	logDirs := func() int {
		m, _ := filepath.Glob(filepath.Join(os.TempDir(), "rdb-log-*"))
		return len(m)
	}
	before := logDirs()
	h := runSrv(t, sc, keep, res, nil)
	if res.HarnessErr != "" || h.Sim == nil {
		return res
	}
	// C06 judges the life cycle only: drop what the shared harness reported for other properties
	kept := res.Violations[:0]
	for _, v := range res.Violations {
		if v.Kind == "deadlock" || v.Kind == "panic" {
			kept = append(kept, v)
		}
	}
	res.Violations = kept
	for _, v := range h.Mon.Snapshot() {
		kind := strings.SplitN(v, ":", 2)[0]
		sig := kind
		for _, b := range h.Mon.Backends {
			if strings.Contains(v, fmt.Sprintf("b%d(", b.ID)) {
				ctx := b.ClosedCtx
				if i := strings.Index(ctx, ":"); i >= 0 {
					ctx = ctx[i+1:]
				}
				sig = kind + "|real|closed-during=" + ctx
			}
		}
		res.Add(kind, sig, v)
	}
	if h.Closed && h.RunErr == nil {
		if leaks := h.Mon.Leaks(nil); len(leaks) > 0 {
			res.Add("leak", "leak|real", fmt.Sprintf("back ends never closed after shutdown and quiescence: %d of %d", len(leaks), len(h.Mon.Backends)))
		}
		// a failed OpenSecondary leaves its (empty) log directory behind: that is a stray temp
		// directory, not a back end, and is not what this property is about
		failedOpens := 0
		for _, o := range h.Ops {
			if o.Op.Kind == "reload" && o.Op.Full && o.Op.Fault == "garbage" && o.Inv > 0 {
				failedOpens++
			}
		}
		if after := logDirs(); after > before+failedOpens {
			res.Add("leak", "leak|rocksdb-log-dir", fmt.Sprintf("%d RocksDB secondary log director(ies) left behind beyond the %d of failed opens: a secondary instance was never closed", after-before, failedOpens))
		}
		res.Probe("real_backend_history_with_shutdown")
		if sc.Proc {
			res.Probe("whole_process_history_with_shutdown")
		}
	}
	res.Nontrivial = h.Mon.Reloads > 0 || res.Switches > 0
	return res
}

func runC06(t *testing.T, sc C06Scenario, keep bool) *core.Result {
	if sc.Real != nil {
		return runC06Real(t, sc.Real, keep)
	}
	res := &core.Result{}
	opt := sched.Options{Tape: sc.Tape, TapeSeed: sc.TapeSeed, Calm: sc.Calm, KeepSchedule: keep, MaxSteps: 20000}
	sched.Bubble(t, opt, func(s *sched.Sim) {
		world := mon.NewWorld()
		m := mon.New(s)
		world.Publish("p0", mon.PathState{Gen: 1, HasKey: true})
		stub, err := mon.OpenStub(world, "p0", sc.AlwaysNew)
		if err != nil {
			res.HarnessErr = err.Error()
			return
		}
		b0 := m.Wrap(stub, "p0")
		setCatchUp := func(b *mon.Backend, st *mon.Stub) {
			b.CatchUp = func(path string) bool { return !st.AlwaysNew && path == st.Path }
		}
		setCatchUp(b0, stub)
		b0.Derive = func(nb *mon.Backend, inner db.DBI, path string) {
			setCatchUp(nb, inner.(*mon.Stub))
			nb.Derive = b0.Derive
		}
		dbc := dnsserver.DBConfig{Path: "p0", Driver: "stub", ReloadTimeout: time.Duration(sc.TimeoutMs) * time.Millisecond, ValidationKey: mon.StubKey}
		var fb *dnsserver.FBDNSDB
		if sc.ViaChan {
			fb, err = dnsserver.NewFBDNSDB(dnsserver.HandlerConfig{}, dbc, dnsserver.CacheConfig{}, &dnsserver.DummyLogger{}, &stats.DummyStats{})
		} else {
			fb, err = dnsserver.NewFBDNSDBBasic(dnsserver.HandlerConfig{}, dbc, dnsserver.CacheConfig{}, &dnsserver.DummyLogger{}, &stats.DummyStats{})
		}
		if err != nil {
			res.HarnessErr = err.Error()
			return
		}
		fb.VerifSetDB(db.VerifNewDB(b0))

		var gate sync.RWMutex // models "listeners are stopped before the database is closed"
		shuttingDown := false
		m.Context = "init"

		for ri, sessions := range sc.Readers {
			sessions := sessions
			s.Go(fmt.Sprintf("reader%d", ri), false, func() {
				for _, ses := range sessions {
					if ses.SleepMs > 0 {
						s.Sleep(time.Duration(ses.SleepMs) * time.Millisecond)
					} else {
						s.Y("reader.next")
					}
					if shuttingDown {
						return
					}
					gate.RLock()
					r, err := fb.AcquireReader()
					gate.RUnlock()
					if err != nil {
						res.Add("acquire-failed", "acquire-failed", err.Error())
						return
					}
					for u := 0; u < ses.Uses; u++ {
						if ses.HoldMs > 0 {
							s.Sleep(time.Duration(ses.HoldMs) * time.Millisecond)
						} else {
							s.Y("reader.use")
						}
						switch u % 3 {
						case 0:
							_ = r.ForEach(mon.StubKey, func([]byte) error { return nil })
						case 1:
							_, _, _, _ = r.IsAuthoritative([]byte{3, 'f', 'o', 'o', 0}, &db.Location{})
						case 2:
							_, _ = r.ResolverLocation([]byte{3, 'f', 'o', 'o', 0}, "10.0.0.1")
						}
					}
					s.Y("reader.release")
					r.Close()
				}
			})
		}

		s.Go("operator", false, func() {
			gen := 1
			shutdown := func() {
				s.Yield("shutdown.gate", func() bool {
					if gate.TryLock() {
						gate.Unlock()
						return true
					}
					return false
				})
				gate.Lock()
				shuttingDown = true
				gate.Unlock()
				m.Context = "shutdown"
				fb.Close()
				res.Fault("shutdown")
			}
			for i, o := range sc.Reloads {
				if i == sc.ShutdownAt {
					shutdown()
					return
				}
				gen++
				kind := o.Kind(sc.TimeoutMs, sc.AlwaysNew)
				m.Context = kind
				res.Config("reload:" + kind)
				var sig dnsserver.ReloadSignal
				if o.Full {
					p := fmt.Sprintf("p%d", i+1)
					world.Publish(p, mon.PathState{Gen: gen, HasKey: o.HasKey, OpenErr: o.OpenErr})
					sig = *dnsserver.NewFullReloadSignal(p)
				} else {
					world.Publish(fb.VerifDBPath(), mon.PathState{Gen: gen, HasKey: o.HasKey, OpenErr: o.OpenErr})
					sig = *dnsserver.NewPartialReloadSignal()
				}
				plan := mon.ReloadPlan{Fail: o.Inject}
				if o.After {
					plan.DelayAfter = time.Duration(o.DelayMs) * time.Millisecond
				} else {
					plan.DelayBefore = time.Duration(o.DelayMs) * time.Millisecond
				}
				m.PlanNext(plan, m.Context)
				var rerr error
				if sc.ViaChan {
					before := m.Reloads
					fb.ReloadChan <- sig
					s.Y("operator.sent")
					// the loop goroutine performs the reload; wait until it has finished it
					for k := 0; k < 10000 && !(m.Reloads > before && fbIdle(fb)); k++ {
						s.Sleep(time.Duration(sc.TimeoutMs+211) * time.Millisecond)
					}
				} else {
					rerr = fb.Reload(sig)
				}
				s.Logf("reload %d %s -> %v", i, kind, rerr)
				res.Fault("reload:" + kind)
				switch {
				case errors.Is(rerr, db.ErrReloadTimeout):
					res.Probe("reload_timed_out")
				case errors.Is(rerr, db.ErrValidationKeyNotFound):
					res.Probe("validation_failed")
				case rerr != nil:
					res.Probe("reload_error")
				default:
					res.Probe("reload_ok")
				}
				// the served back end must be open whenever no reload is in progress
				if sb, ok := db.VerifDBI(fb.VerifDB()).(*mon.Backend); ok && sb.Closed() {
					res.Add("served-backend-closed", "served-backend-closed|closed-during="+sb.ClosedCtx,
						fmt.Sprintf("after reload %d (%s) the served back end b%d is closed", i, kind, sb.ID))
				}
			}
			shutdown()
		})

		runErr := s.Run()
		res.FromSim(s)
		if runErr != nil {
			if errors.Is(runErr, sched.ErrDeadlock) {
				res.Add("deadlock", "deadlock", runErr.Error())
			} else {
				res.HarnessErr = runErr.Error()
			}
		}
		for _, p := range s.Panics() {
			res.Add("panic", "panic", p)
		}
		// classify monitor violations
		for _, v := range m.Snapshot() {
			kind := strings.SplitN(v, ":", 2)[0]
			sig := kind
			for _, b := range m.Backends {
				if strings.Contains(v, fmt.Sprintf("b%d(", b.ID)) {
					sig = kind + "|closed-during=" + b.ClosedCtx
				}
			}
			res.Add(kind, sig, v)
		}
		if runErr == nil {
			if leaks := m.Leaks(nil); len(leaks) > 0 {
				res.Add("leak", "leak", fmt.Sprintf("back ends never closed after shutdown and quiescence: %v", leaks))
			}
		}
		if m.Reloads > 0 && len(sc.Readers) > 0 || res.Switches > 0 {
			res.Nontrivial = true
		}
		// coverage target of DESIGN §5.2: operator sequences of length <= 3 over the operation kinds
		var kinds []string
		for i, o := range sc.Reloads {
			if i == sc.ShutdownAt {
				kinds = append(kinds, "shutdown")
				break
			}
			kinds = append(kinds, o.Kind(sc.TimeoutMs, sc.AlwaysNew))
		}
		if sc.ShutdownAt >= len(sc.Reloads) {
			kinds = append(kinds, "shutdown")
		}
		res.Cover = map[string]int{}
		for i := range kinds {
			for n := 1; n <= 3 && i+n <= len(kinds); n++ {
				res.Cover[strings.Join(kinds[i:i+n], " > ")]++
			}
		}
		res.Population = "faults"
		clean := true
		for i, o := range sc.Reloads {
			if i >= sc.ShutdownAt {
				break
			}
			if o.Inject || o.OpenErr || !o.HasKey || o.DelayMs > sc.TimeoutMs {
				clean = false
			}
		}
		if clean {
			res.Population = "fault-free"
		}
	})
	return res
}

// fbIdle reports whether no reload holds the reload lock (harness-side probe, scheduler quiescent).
func fbIdle(fb *dnsserver.FBDNSDB) bool {
	return fb.VerifIdle()
}

func TestC06(t *testing.T) {
	core.Explore(t, core.Check[C06Scenario]{Property: "C06", Draw: drawC06, Run: runC06, Summary: summaryC06, Batch: 100})
}
