package checks

import (
	"errors"
	"fmt"
	"io"
	"os"
	"path/filepath"
	"runtime"
	"strings"
	"testing"

	"pgregory.net/rapid"

	cdb "github.com/repustate/go-cdb"

	dcdb "github.com/facebookincubator/dns/dnsrocks/dnsdata/cdb"
	"github.com/facebookincubator/dns/dnsrocks/dnsdata/rdb"
	"github.com/facebookincubator/dns/dnsrocks/verifhook"

	"dsim/core"
	"dsim/dump"
	"dsim/gen"
	"dsim/mon"
	"dsim/sched"
)

// ---- C07: compilation is a deterministic, lossless function of the data file -------------------

// C07Scenario is one compilation.
type C07Scenario struct {
	FileSeed      uint64 `json:"file_seed"`
	Records       int    `json:"records"`
	Nets          int    `json:"nets"`
	BadLine       bool   `json:"bad_line,omitempty"`
	Target        string `json:"target"` // "cdb", "rdb1", "rdb2"
	Workers       int    `json:"workers"`
	Builder       bool   `json:"builder,omitempty"`
	BatchSize     int    `json:"batch_size,omitempty"`
	BatchParallel int    `json:"batch_parallel"`
	FreeRunning   bool   `json:"free_running,omitempty"` // big files: real parallelism, hooks in perturbation mode
	ReadSizes     []int  `json:"read_sizes,omitempty"`
	ReadErrAt     int    `json:"read_err_at"` // -1 = never
	FailCall      int    `json:"fail_call"`   // index of the low-level RocksDB call of the compilation that fails (-1 = none)
	// MinBucket / MaxBuckets > 0 replace the bulk loader's bucket parameters (30000 items, one bucket
	// per CPU) for this compilation, so that small files are split into several sorted buckets too
	MinBucket  int     `json:"min_bucket,omitempty"`
	MaxBuckets int     `json:"max_buckets,omitempty"`
	NoFinalNL  bool    `json:"no_final_newline,omitempty"`
	Tape       []uint8 `json:"tape"`
	TapeSeed   uint64  `json:"tape_seed"`
	Calm       int     `json:"calm"`

	failedCall string // which low-level call was failed in this run ("" = none was reached)
}

func drawC07(rt *rapid.T, tier string) C07Scenario {
	sc := C07Scenario{
		FileSeed:      rapid.Uint64Range(0, 1<<40).Draw(rt, "file_seed"),
		Records:       rapid.SampledFrom([]int{0, 1, 3, 10, 40, 120, 400}).Draw(rt, "records"),
		Nets:          rapid.SampledFrom([]int{0, 0, 3, 12, 40, 250}).Draw(rt, "nets"),
		BadLine:       rapid.IntRange(0, 7).Draw(rt, "bad") == 0,
		Target:        rapid.SampledFrom([]string{"cdb", "rdb1", "rdb2", "rdb2"}).Draw(rt, "target"),
		Workers:       rapid.SampledFrom([]int{1, 2, 3, 8}).Draw(rt, "workers"),
		Builder:       rapid.Bool().Draw(rt, "builder"),
		BatchSize:     rapid.SampledFrom([]int{1, 2, 3, 7, 50, 1000}).Draw(rt, "batch_size"),
		BatchParallel: rapid.SampledFrom([]int{0, 1, 2, 4}).Draw(rt, "batch_parallel"),
		ReadErrAt:     -1,
		FailCall:      -1,
		NoFinalNL:     rapid.IntRange(0, 5).Draw(rt, "nofinalnl") == 0,
		Calm:          rapid.IntRange(0, 2).Draw(rt, "calm"),
		TapeSeed:      rapid.Uint64().Draw(rt, "tape_seed"),
	}
	if tier != "thorough" && rapid.IntRange(0, 79).Draw(rt, "quick_big") == 0 {
		// a few big files also in the quick tier: the bulk loader must split into several buckets
		sc.Records, sc.FreeRunning, sc.Builder, sc.Target = 64000+rapid.IntRange(0, 8000).Draw(rt, "big"), true, true, rapid.SampledFrom([]string{"rdb1", "rdb2"}).Draw(rt, "big_target")
	}
	if rapid.IntRange(0, 11).Draw(rt, "free_batches") == 0 {
		// batch mode on real parallelism: many small batches in flight that share hot keys, so that
		// interleavings inside ExecuteBatch that are finer than the yield points (between the merge
		// and the low-level write, say) are reached too
		sc.Records, sc.FreeRunning, sc.Builder = rapid.IntRange(1500, 4000).Draw(rt, "fb_records"), true, false
		sc.Target = rapid.SampledFrom([]string{"rdb1", "rdb2"}).Draw(rt, "fb_target")
		sc.BatchSize = rapid.SampledFrom([]int{5, 20, 40}).Draw(rt, "fb_batch_size")
		sc.BatchParallel = rapid.SampledFrom([]int{0, 2, 4, 8}).Draw(rt, "fb_parallel")
		sc.Workers = rapid.SampledFrom([]int{2, 4, 8}).Draw(rt, "fb_workers")
		sc.BadLine = false
	}
	if tier == "thorough" {
		switch rapid.IntRange(0, 29).Draw(rt, "size_class") {
		case 0:
			sc.Records, sc.FreeRunning = 70000+rapid.IntRange(0, 30000).Draw(rt, "big"), true
			if sc.BatchSize < 1000 {
				// every batch reserves room for 2 x 100000 pairs: 100000 batches of one record would take the
				// better part of an hour (and trip the watchdog), which is volume, not exploration
				sc.BatchSize = 1000
			}
		case 1, 2, 3:
			sc.Records = rapid.IntRange(400, 3000).Draw(rt, "mid")
		}
	}
	if rapid.IntRange(0, 2).Draw(rt, "segmented") == 0 {
		sc.ReadSizes = rapid.SliceOfN(rapid.SampledFrom([]int{1, 2, 3, 7, 64, 4095, 4096, 4097}), 1, 3).Draw(rt, "read_sizes")
	}
	if rapid.IntRange(0, 7).Draw(rt, "read_err") == 0 {
		sc.ReadErrAt = rapid.IntRange(0, 4000).Draw(rt, "read_err_at")
	}
	if sc.Target != "cdb" && sc.Builder && sc.Records < 60000 && rapid.IntRange(0, 1).Draw(rt, "small_buckets") == 0 {
		sc.MinBucket = rapid.SampledFrom([]int{1, 2, 3, 7, 40}).Draw(rt, "min_bucket")
		sc.MaxBuckets = rapid.SampledFrom([]int{2, 3, 4, 5, 16}).Draw(rt, "max_buckets")
	}
	if sc.Target != "cdb" && sc.ReadErrAt < 0 && !sc.BadLine && rapid.IntRange(0, 5).Draw(rt, "rocksdb_err") == 0 {
		// a failing low-level RocksDB call inside the compilation (GetMulti / ExecuteBatch of a batch,
		// IngestSSTFiles of the builder, ...)
		sc.FailCall = rapid.SampledFrom([]int{0, 0, 1, 2, 3, 5, 8}).Draw(rt, "fail_call")
		if sc.Builder {
			sc.FailCall = 0 // the bulk loader makes one fallible call: the ingestion of its SST files
		}
	}
	sc.Tape = rapid.SliceOfN(rapid.Uint8(), 0, 64).Draw(rt, "tape")
	return sc
}

func summaryC07(sc C07Scenario) interface{} {
	m := map[string]interface{}{"target": sc.Target, "records": sc.Records, "subnet_lines": sc.Nets, "workers": sc.Workers, "bad_line": sc.BadLine,
		"read_sizes": sc.ReadSizes, "read_err_at": sc.ReadErrAt, "free_running": sc.FreeRunning, "failing_rocksdb_call": sc.FailCall}
	if sc.Target != "cdb" {
		m["builder"] = sc.Builder
		if !sc.Builder {
			m["batch_size"], m["batch_parallel"] = sc.BatchSize, sc.BatchParallel
		}
	}
	return m
}

func (sc *C07Scenario) settings() string {
	if sc.Target == "cdb" {
		return fmt.Sprintf("cdb workers=%d", sc.Workers)
	}
	if sc.Builder {
		if sc.MinBucket > 0 {
			return fmt.Sprintf("%s builder workers=%d buckets>=%d,<=%d", sc.Target, sc.Workers, sc.MinBucket, sc.MaxBuckets)
		}
		return fmt.Sprintf("%s builder workers=%d", sc.Target, sc.Workers)
	}
	return fmt.Sprintf("%s batches size=%d parallel=%d workers=%d", sc.Target, sc.BatchSize, sc.BatchParallel, sc.Workers)
}

// compileOnce runs the real compiler on the reader and dumps what it produced.
func compileOnce(sc *C07Scenario, in io.Reader, dir string) (dump.DB, error) {
	const serial = 4242
	if sc.Target == "cdb" {
		path := filepath.Join(dir, "out.cdb")
		w, err := cdb.NewWriter(path)
		if err != nil {
			return nil, fmt.Errorf("harness: %w", err)
		}
		_, cerr := dcdb.CreateCDBFromReader(in, w, serial, sc.Workers)
		if err := w.Close(); err != nil && cerr == nil {
			cerr = err
		}
		if cerr != nil {
			return nil, cerr
		}
		return dump.CDB(path)
	}
	path := filepath.Join(dir, "out.rdb")
	if err := os.MkdirAll(path, 0o755); err != nil {
		return nil, fmt.Errorf("harness: %w", err)
	}
	opts := rdb.CompilationOptions{NumCPU: sc.Workers, UseV2KeySyntax: sc.Target == "rdb2", UseBuilder: sc.Builder,
		BatchNumParallel: sc.BatchParallel, BatchSize: sc.BatchSize}
	if sc.MinBucket > 0 && sc.Builder {
		rdb.VerifSetBuckets(sc.MinBucket, sc.MaxBuckets)
		defer rdb.VerifSetBuckets(0, 0)
	}
	if sc.FailCall >= 0 {
		fi := &mon.FaultyRDBI{FailAt: map[int]bool{sc.FailCall: true}, OnFail: func(call string, _ int) { sc.failedCall = call }}
		rdb.VerifSetCompileWrap(func(d rdb.DBI) rdb.DBI { fi.DBI = d; return fi })
		defer rdb.VerifSetCompileWrap(nil)
	}
	if _, err := rdb.Compile(in, serial, path, opts); err != nil {
		return nil, err
	}
	return dump.RDB(path)
}

func runC07(t *testing.T, sc C07Scenario, keep bool) *core.Result {
	res := &core.Result{Population: "fault-free"}
	lines := gen.RandomFile(sc.FileSeed, gen.FileOpts{Records: sc.Records, Nets: sc.Nets, BadLine: sc.BadLine, Tag: int(sc.FileSeed % 200), Stray: sc.FileSeed%3 == 0})
	text := strings.Join(lines, "\n")
	if !sc.NoFinalNL {
		text += "\n"
	}
	if sc.ReadErrAt >= len(text) {
		sc.ReadErrAt = -1
	}
	if sc.BadLine || sc.ReadErrAt >= 0 {
		res.Population = "faults"
	}
	var want dump.DB
	var refErr error
	if sc.Target == "cdb" {
		want, refErr = referenceDB(lines, cdbCodec(4242))
	} else {
		want, refErr = referenceDB(lines, rdbCodec(4242, sc.Target == "rdb2"))
	}
	if (refErr != nil) != sc.BadLine {
		res.HarnessErr = fmt.Sprintf("generator/codec disagreement: bad line %v, codec error %v", sc.BadLine, refErr)
		return res
	}
	dir, err := os.MkdirTemp("", "c07-")
	if err != nil {
		res.HarnessErr = err.Error()
		return res
	}
	defer os.RemoveAll(dir)
	in := &segReader{data: []byte(text), st: C16Stream{Sizes: sc.ReadSizes, ErrAt: sc.ReadErrAt}}
	var got dump.DB
	var cerr error
	finished := false
	if sc.FreeRunning {
		verifhook.Attach(sched.Perturb{})
		prevProcs := runtime.GOMAXPROCS(4) // the workers run with one P each: real parallelism for this run only
		got, cerr = compileOnce(&sc, in, dir)
		runtime.GOMAXPROCS(prevProcs)
		verifhook.Attach(nil)
		finished = true
		res.TraceHash = strings.ReplaceAll(fmt.Sprintf("free-%x-%s", sc.FileSeed, sc.settings()), " ", "_")
		if sc.Records >= 60000 {
			res.Probe("free_running_big_file")
		} else {
			res.Probe("free_running_parallel_batches")
		}
	} else {
		opt := sched.Options{Tape: sc.Tape, TapeSeed: sc.TapeSeed, Calm: sc.Calm, KeepSchedule: keep, MaxSteps: 400000, NoAdvanceWhileEnabled: true}
		sched.Bubble(t, opt, func(s *sched.Sim) {
			s.Go("compile", false, func() {
				got, cerr = compileOnce(&sc, in, dir)
				finished = true
			})
			rerr := s.Run()
			res.FromSim(s)
			if rerr != nil {
				if errors.Is(rerr, sched.ErrDeadlock) {
					res.Add("deadlock", "deadlock|"+strings.Fields(sc.settings())[1], fmt.Sprintf("compilation (%s) of a %d-line file never finishes: %v", sc.settings(), len(lines), rerr))
				} else {
					res.HarnessErr = rerr.Error()
				}
			}
			for _, p := range s.Panics() {
				res.Add("panic", "panic", p)
			}
		})
	}
	if in.fired {
		res.Fault("input-read-error")
	}
	if len(sc.ReadSizes) > 0 {
		res.Fault("input-short-reads")
	}
	if sc.BadLine {
		res.Fault("rejected-line")
	}
	if sc.failedCall != "" {
		res.Fault("rocksdb-call-error:" + sc.failedCall)
		res.Population = "faults"
	}
	if !finished || res.HarnessErr != "" || len(res.Violations) > 0 {
		return res
	}
	if cerr != nil && strings.HasPrefix(cerr.Error(), "harness:") {
		res.HarnessErr = cerr.Error()
		return res
	}
	mustFail := sc.BadLine || in.fired
	switch {
	case mustFail && cerr == nil:
		what := "a line the codec rejects"
		if in.fired {
			what = "a read error in the middle of the input"
		}
		res.Add("error-swallowed", "error-swallowed|"+strings.Fields(sc.settings())[0], fmt.Sprintf("compilation (%s) succeeded although the input had %s", sc.settings(), what))
	case !mustFail && cerr != nil && sc.failedCall != "":
		// a compilation that was handed a storage error may fail
		res.Probe("compilation_failed_on_rocksdb_error")
	case !mustFail && cerr != nil:
		res.Add("compile-failed", "compile-failed", fmt.Sprintf("compilation (%s) of a well-formed file failed: %v", sc.settings(), cerr))
	case !mustFail:
		if d := dump.Diff(got, want, "compiled database", "line-by-line codec"); d != "" {
			if sc.failedCall != "" {
				// may fail, never wrong data: success was reported although a storage call had failed, and the database is wrong
				res.Add("error-swallowed", "error-swallowed|rocksdb-call-error|"+strings.Fields(sc.settings())[1], fmt.Sprintf("%s: the low-level call %s failed, the compilation reported success, and %s", sc.settings(), sc.failedCall, d))
			} else {
				res.Add("compiled-db-wrong", "compiled-db-wrong|"+strings.Fields(sc.settings())[0]+"|"+strings.Fields(sc.settings())[1], fmt.Sprintf("%s: %s", sc.settings(), d))
			}
		}
		k, v := want.Count()
		if v > k {
			res.Probe("multi_value_keys")
		}
		if sc.MinBucket > 0 && sc.Builder && sc.Target != "cdb" && v > sc.MinBucket*2 {
			res.Probe("small_file_in_several_buckets")
		}
	}
	res.Nontrivial = len(lines) > 3
	if res.TraceHash == "" {
		res.TraceHash = "x"
	}
	res.TraceHash += fmt.Sprintf("/%x", sc.FileSeed)
	return res
}

func TestC07(t *testing.T) {
	core.Explore(t, core.Check[C07Scenario]{Property: "C07", Draw: drawC07, Run: runC07, Summary: summaryC07, Batch: 40})
}
