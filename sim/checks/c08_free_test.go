package checks

import (
	"encoding/json"
	"fmt"
	"os"
	"path/filepath"
	"strings"
	"sync"
	"testing"
	"time"

	"github.com/facebookincubator/dns/dnsrocks/dnsdata/rdb"
	"github.com/facebookincubator/dns/dnsrocks/verifhook"

	"dsim/core"
	"dsim/dump"
	"dsim/gen"
	"dsim/sched"
)

// ---- C08, free-running tier ---------------------------------------------------------------------
//
// ApplyDiff itself is sequential, but one publisher process may update several databases at once
// (the v1-key and the v2-key copy of a zone set, say). Two goroutines apply two different diffs to
// two different databases at the same time, race detector on; each database must then equal the
// fresh compile of its own target - whatever the timing - and nothing may be shared between the two
// calls.

type c08FreeStats struct {
	Rounds     int      `json:"rounds"`
	DiffLines  int      `json:"diff_lines_applied"`
	Violations []string `json:"violations"`
	WallS      float64  `json:"wall_s"`
	Seed       uint64   `json:"seed"`
}

func TestC08Free(t *testing.T) {
	env := core.GetEnv("C08")
	if os.Getenv("VERIF_RACE_TIER") == "" {
		t.Skip("the free-running tier is run by ./check")
	}
	verifhook.Attach(sched.Perturb{})
	defer verifhook.Attach(nil)
	fs := &c08FreeStats{Seed: env.Seed}
	start := time.Now()
	deadline := start.Add(time.Duration(env.BudgetS * float64(time.Second)))
	base, err := os.MkdirTemp("", "c08free-")
	if err != nil {
		t.Fatal(err)
	}
	defer os.RemoveAll(base)
	var mu sync.Mutex
	violate := func(format string, a ...interface{}) {
		mu.Lock()
		if len(fs.Violations) < 4 {
			fs.Violations = append(fs.Violations, fmt.Sprintf(format, a...))
		}
		mu.Unlock()
	}
	for round := 0; (round == 0 || time.Now().Before(deadline)) && len(fs.Violations) == 0; round++ {
		type side struct {
			dir        string
			v2         bool
			prev, next []string
			diff       string
			lines      int
		}
		sides := make([]*side, 2)
		for i := range sides {
			seed := env.Seed*1000 + uint64(round*2+i)
			pool := gen.RandomFile(seed, gen.FileOpts{Records: 250, Nets: 30, Tag: int(seed % 200)})
			prev, err1 := preprocess(c08File(pool, seed*7+1), 4242)
			next, err2 := preprocess(c08File(pool, seed*7+2), 4242)
			if err1 != nil || err2 != nil {
				t.Fatalf("preprocess: %v %v", err1, err2)
			}
			d := lineDiff(prev, next)
			shuffle(d, seed)
			s := &side{dir: filepath.Join(base, fmt.Sprintf("r%d-%d", round, i)), v2: i == 1, prev: prev, next: next, diff: strings.Join(d, "\n") + "\n", lines: len(d)}
			if err := compileLines(prev, s.dir, s.v2); err != nil {
				t.Fatalf("compile: %v", err)
			}
			sides[i] = s
		}
		var wg sync.WaitGroup
		for i, s := range sides {
			i, s := i, s
			wg.Add(1)
			go func() {
				defer wg.Done()
				u, err := rdb.NewUpdater(s.dir)
				if err != nil {
					violate("harness: NewUpdater: %v", err)
					return
				}
				// short reads keep both calls inside their scanning loops for a while
				rd := &segReader{data: []byte(s.diff), st: C16Stream{Sizes: []int{64, 3, 4096}[i : i+2], ErrAt: -1}}
				aerr := u.ApplyDiff(rd, 4242)
				if cerr := u.Close(); cerr != nil && aerr == nil {
					aerr = cerr
				}
				if aerr != nil {
					violate("diff-failed: ApplyDiff of a deliverable diff of %d lines failed while another database was being updated in the same process: %v", s.lines, aerr)
				}
			}()
		}
		wg.Wait()
		for i, s := range sides {
			if len(fs.Violations) > 0 {
				break
			}
			got, err := dump.RDB(s.dir)
			if err != nil {
				t.Fatalf("dump: %v", err)
			}
			fresh := s.dir + "-fresh"
			if err := compileLines(s.next, fresh, s.v2); err != nil {
				t.Fatalf("compile: %v", err)
			}
			want, err := dump.RDB(fresh)
			if err != nil {
				t.Fatalf("dump: %v", err)
			}
			if d := dump.Diff(got, want, "database after ApplyDiff", "database compiled from its new file"); d != "" {
				violate("diff-result-wrong: database %d of two updated at the same time: %s", i, d)
			}
			fs.DiffLines += s.lines
			os.RemoveAll(fresh)
			os.RemoveAll(s.dir)
		}
		fs.Rounds++
	}
	fs.WallS = time.Since(start).Seconds()
	data, _ := json.MarshalIndent(fs, "", " ")
	_ = os.WriteFile(filepath.Join(env.OutDir, "race.json"), data, 0o644)
	for _, v := range fs.Violations {
		t.Errorf("RACE-TIER-VIOLATION %s", v)
	}
}
