package checks

import (
	"fmt"
	"os"
	"path/filepath"
	"sort"
	"strings"
	"testing"

	"pgregory.net/rapid"

	"github.com/facebookincubator/dns/dnsrocks/dnsdata/rdb"

	"dsim/core"
	"dsim/dump"
	"dsim/gen"
	"dsim/mon"
)

// ---- C08: applying a diff gives the database of the new data file ----------------------------

// C08Step is one diff application A(i-1) -> A(i).
type C08Step struct {
	Select    uint64 `json:"select"`      // which lines of the pool file i holds
	Order     uint64 `json:"order"`       // order of the diff lines
	Undeliver string `json:"undeliver"`   // "", "absent-value", "absent-key", "malformed", "bad-op"
	Position  int    `json:"position"`    // where the undeliverable line goes (per mille of the diff)
	FailCall  int    `json:"fail_call"`   // index of the low-level RocksDB call that fails (-1 = none)
	ReadErrAt int    `json:"read_err_at"` // the diff reader fails at this offset (-1 = never)
	ReadSizes []int  `json:"read_sizes,omitempty"`
}

// C08Scenario is a chain of diffs.
type C08Scenario struct {
	PoolSeed uint64    `json:"pool_seed"`
	Records  int       `json:"records"`
	Nets     int       `json:"nets"`
	V2       bool      `json:"v2"`
	Select0  uint64    `json:"select0"`
	Steps    []C08Step `json:"steps"`
	// OneHandle: all diffs of the chain go through one open updater (as a long-running publisher
	// does); the database is closed once at the end and must then still be the last target
	OneHandle bool `json:"one_handle,omitempty"`
}

func drawC08(rt *rapid.T, tier string) C08Scenario {
	step := rapid.Custom(func(rt *rapid.T) C08Step {
		st := C08Step{Select: rapid.Uint64().Draw(rt, "select"), Order: rapid.Uint64().Draw(rt, "order"), FailCall: -1, ReadErrAt: -1}
		switch rapid.IntRange(0, 9).Draw(rt, "fault") {
		case 0:
			st.Undeliver = rapid.SampledFrom([]string{"absent-value", "absent-key", "malformed", "bad-op", "op-only"}).Draw(rt, "undeliver")
			st.Position = rapid.IntRange(0, 1000).Draw(rt, "position")
		case 1:
			st.FailCall = rapid.IntRange(0, 3).Draw(rt, "fail_call")
		case 2:
			st.ReadErrAt = rapid.IntRange(0, 3000).Draw(rt, "read_err_at")
		}
		if rapid.IntRange(0, 3).Draw(rt, "segmented") == 0 {
			st.ReadSizes = rapid.SliceOfN(rapid.SampledFrom([]int{1, 3, 64, 4096}), 1, 2).Draw(rt, "read_sizes")
		}
		return st
	})
	maxSteps := 3
	if tier == "thorough" {
		maxSteps = 6
	}
	sc := C08Scenario{
		PoolSeed: rapid.Uint64Range(0, 1<<40).Draw(rt, "pool_seed"),
		Records:  rapid.SampledFrom([]int{5, 30, 100, 300}).Draw(rt, "records"),
		Nets:     rapid.SampledFrom([]int{0, 5, 30, 120}).Draw(rt, "nets"),
		V2:       rapid.Bool().Draw(rt, "v2"),
		Select0:  rapid.Uint64().Draw(rt, "select0"),
		Steps:    rapid.SliceOfN(step, 1, maxSteps).Draw(rt, "steps"),
	}
	sc.OneHandle = len(sc.Steps) > 1 && rapid.IntRange(0, 2).Draw(rt, "one_handle") == 0
	// a share of big diffs (well over 8192 operations) whose undeliverable line, if any, comes
	// late: all-or-nothing must hold for a diff of any size, not only for one that fits one batch
	bigShare := 25
	if tier == "thorough" {
		bigShare = 12
	}
	if rapid.IntRange(0, bigShare-1).Draw(rt, "big") == 0 {
		sc.Records = 26000 + rapid.IntRange(0, 6000).Draw(rt, "big_records")
		sc.Nets = 400
		sc.Steps = sc.Steps[:1]
		sc.Steps[0].ReadErrAt, sc.Steps[0].FailCall, sc.Steps[0].ReadSizes = -1, -1, nil
		sc.Steps[0].Undeliver = rapid.SampledFrom([]string{"absent-value", "absent-key", "malformed", "bad-op", ""}).Draw(rt, "big_undeliver")
		sc.Steps[0].Position = rapid.IntRange(850, 1000).Draw(rt, "big_position")
	}
	return sc
}

func summaryC08(sc C08Scenario) interface{} {
	var st []string
	for _, s := range sc.Steps {
		f := "ok"
		switch {
		case s.Undeliver != "":
			f = "undeliverable:" + s.Undeliver
		case s.FailCall >= 0:
			f = fmt.Sprintf("rocksdb-call-%d-fails", s.FailCall)
		case s.ReadErrAt >= 0:
			f = fmt.Sprintf("reader-error@%d", s.ReadErrAt)
		}
		st = append(st, f)
	}
	return map[string]interface{}{"pool_records": sc.Records, "pool_subnets": sc.Nets, "v2_keys": sc.V2, "steps": st, "one_open_handle": sc.OneHandle}
}

// c08File selects the lines of file i from the pool: about 2/3 of the lines, some of them twice.
func c08File(pool []string, sel uint64) []string {
	var out []string
	for i, l := range pool {
		h := core.SplitMix(sel ^ uint64(i)*0x9e3779b97f4a7c15)
		if strings.HasPrefix(l, "Z") || h%3 != 0 {
			out = append(out, l)
			if h%11 == 0 && !strings.HasPrefix(l, "%") && !strings.HasPrefix(l, "Z") && !isIgnoredLine(l) {
				out = append(out, l) // the same record twice: two equal values under one key
			}
		}
	}
	return out
}

// lineDiff is the multiset difference of two preprocessed files as diff lines.
func lineDiff(a, b []string) []string {
	cnt := map[string]int{}
	for _, l := range a {
		cnt[l]--
	}
	for _, l := range b {
		cnt[l]++
	}
	var keys []string
	for k := range cnt {
		keys = append(keys, k)
	}
	sort.Strings(keys)
	var out []string
	for _, k := range keys {
		for n := cnt[k]; n < 0; n++ {
			out = append(out, "-"+k)
		}
		for n := cnt[k]; n > 0; n-- {
			out = append(out, "+"+k)
		}
	}
	return out
}

func shuffle(l []string, seed uint64) {
	r := gen.NewRng(seed)
	for i := len(l) - 1; i > 0; i-- {
		j := r.N(i + 1)
		l[i], l[j] = l[j], l[i]
	}
}

func compileLines(lines []string, dir string, v2 bool) error {
	in := filepath.Join(dir + ".in")
	if err := os.WriteFile(in, []byte(strings.Join(lines, "\n")+"\n"), 0o644); err != nil {
		return err
	}
	defer os.Remove(in)
	if err := os.MkdirAll(dir, 0o755); err != nil {
		return err
	}
	f, err := os.Open(in)
	if err != nil {
		return err
	}
	defer f.Close()
	_, err = rdb.Compile(f, 4242, dir, rdb.CompilationOptions{NumCPU: 1, UseV2KeySyntax: v2, UseBuilder: len(lines) > 20000, BatchSize: 100000, BatchNumParallel: 1}) // the bulk loader reserves room for 20 million keys (about 1 GB) each time: batches for small files
	return err
}

func runC08(t *testing.T, sc C08Scenario, keep bool) *core.Result {
	res := &core.Result{Population: "fault-free"}
	dir, err := os.MkdirTemp("", "c08-")
	if err != nil {
		res.HarnessErr = err.Error()
		return res
	}
	defer os.RemoveAll(dir)
	pool := gen.RandomFile(sc.PoolSeed, gen.FileOpts{Records: sc.Records, Nets: sc.Nets, Tag: int(sc.PoolSeed % 200)})
	prev, err := preprocess(c08File(pool, sc.Select0), 4242)
	if err != nil {
		res.HarnessErr = "preprocess: " + err.Error()
		return res
	}
	dbdir := filepath.Join(dir, "db")
	if err := compileLines(prev, dbdir, sc.V2); err != nil {
		res.HarnessErr = "compile A: " + err.Error()
		return res
	}
	res.TraceHash = fmt.Sprintf("%x/%x/%v/%v", sc.PoolSeed, sc.Select0, sc.V2, sc.OneHandle)
	var u *rdb.RDB // the open updater (kept across steps in one-handle chains)
	var fi *mon.FaultyRDBI
	defer func() {
		if u != nil {
			fi.Suspend = true
			_ = u.Close()
		}
	}()
	lastWant, err := dump.RDB(dbdir)
	if err != nil {
		res.HarnessErr = "dump: " + err.Error()
		return res
	}
	for i, st := range sc.Steps {
		next, err := preprocess(c08File(pool, st.Select), 4242)
		if err != nil {
			res.HarnessErr = "preprocess: " + err.Error()
			return res
		}
		diff := lineDiff(prev, next)
		shuffle(diff, st.Order)
		if len(diff) > 8192 {
			res.Probe("diff_larger_than_8192_lines")
		}
		for _, l := range diff {
			if strings.HasPrefix(l, "-!") || strings.HasPrefix(l, "+!") {
				res.Probe("range_point_churn")
				break
			}
		}
		faulty := false
		if st.Undeliver != "" {
			var bad string
			switch st.Undeliver {
			case "absent-value":
				bad = "-+h1.z0.test,203.0.113.77,61,,," // a value no file ever holds, possibly under an existing key
			case "absent-key":
				bad = "-'never-declared.z9.test,nothing,60,,"
			case "malformed":
				bad = `++h1.z0.test,1.2.3.4,60,,\`
			case "bad-op":
				bad = "*+h1.z0.test,1.2.3.4,60,,"
			case "op-only":
				bad = "+" // an operation without an argument
			}
			pos := len(diff) * st.Position / 1000
			diff = append(diff[:pos], append([]string{bad}, diff[pos:]...)...)
			faulty = true
			res.Fault("undeliverable:" + st.Undeliver)
		}
		// with one handle kept open its writes may live in its memtable only: look through that handle
		look := func() (dump.DB, error) {
			if u != nil {
				return dump.Handle(fi.DBI)
			}
			return dump.RDB(dbdir)
		}
		before, err := look()
		if err != nil {
			res.HarnessErr = "dump: " + err.Error()
			return res
		}
		text := strings.Join(diff, "\n") + "\n"
		errAt := st.ReadErrAt
		if errAt >= len(text) {
			errAt = -1
		}
		rd := &segReader{data: []byte(text), st: C16Stream{Sizes: st.ReadSizes, ErrAt: errAt}}
		if u == nil {
			u, err = rdb.NewUpdater(dbdir)
			if err != nil {
				res.HarnessErr = "NewUpdater: " + err.Error()
				return res
			}
			fi = &mon.FaultyRDBI{}
			rdb.VerifWrapDBI(u, func(in rdb.DBI) rdb.DBI { fi.DBI = in; return fi })
		}
		fi.FailAt, fi.N, fi.OnFail, fi.Suspend = map[int]bool{}, 0, nil, false
		injected := false
		if st.FailCall >= 0 {
			fi.FailAt[st.FailCall] = true
			fi.OnFail = func(call string, _ int) { injected = true; res.Fault("rocksdb-call-error:" + call) }
		}
		var aerr error
		var panicked interface{}
		func() {
			defer func() { panicked = recover() }()
			aerr = u.ApplyDiff(rd, 4242)
		}()
		fi.Suspend = true
		if panicked != nil {
			// applying a diff is the operation this property quantifies over: a panic inside it is a violation
			res.Add("panic", "panic|applydiff", fmt.Sprintf("step %d (%d diff lines, v2=%v): ApplyDiff panicked: %v", i, len(diff), sc.V2, panicked))
			return res
		}
		if !sc.OneHandle {
			cerr := u.Close()
			u = nil
			if cerr != nil {
				res.HarnessErr = "close: " + cerr.Error()
				return res
			}
		}
		if rd.fired {
			res.Fault("diff-read-error")
			faulty = true
		}
		if injected {
			faulty = true
		}
		if faulty {
			res.Population = "faults"
		}
		after, err := look()
		if err != nil {
			res.HarnessErr = "dump: " + err.Error()
			return res
		}
		label := fmt.Sprintf("step %d (%d diff lines, v2=%v)", i, len(diff), sc.V2)
		mustFail := st.Undeliver != "" || rd.fired
		switch {
		case faulty && !mustFail && aerr == nil:
			// an injected RocksDB call error that the operation survived: it may fail, but if it
			// reports success the result must be right (checked below like a fault-free step)
			res.Probe("rocksdb_error_survived")
		case faulty && aerr == nil:
			res.Add("error-swallowed", "error-swallowed|"+faultName(st, rd.fired, injected), label+": ApplyDiff returned nil although the diff could not be applied as a whole ("+faultName(st, rd.fired, injected)+")")
			return res
		case faulty && aerr != nil:
			if d := dump.Diff(after, before, "database after the failed diff", "database before it"); d != "" {
				res.Add("failed-diff-changed-db", "failed-diff-changed-db|"+faultName(st, rd.fired, injected), label+": "+d)
				return res
			}
			res.Probe("failed_diff_left_db_unchanged")
			continue // the database still holds prev
		case aerr != nil && !faulty:
			res.Add("diff-failed", "diff-failed", fmt.Sprintf("%s: ApplyDiff of a deliverable diff failed: %v", label, aerr))
			return res
		}
		fresh := filepath.Join(dir, fmt.Sprintf("fresh%d", i))
		if err := compileLines(next, fresh, sc.V2); err != nil {
			res.HarnessErr = "compile B: " + err.Error()
			return res
		}
		want, err := dump.RDB(fresh)
		os.RemoveAll(fresh)
		if err != nil {
			res.HarnessErr = "dump: " + err.Error()
			return res
		}
		if d := dump.Diff(after, want, "database after ApplyDiff", "database compiled from the new file"); d != "" {
			res.Add("diff-result-wrong", "diff-result-wrong", label+": "+d)
			return res
		}
		res.Probe("diff_applied")
		if len(diff) > 0 {
			res.Nontrivial = true
		}
		prev = next
		lastWant = want
	}
	if sc.OneHandle && u != nil {
		// the publisher shuts down: what is on disk once the database is closed (its log flushed into
		// table files) is still the database of the last file that was delivered
		cerr := u.Close()
		u = nil
		if cerr != nil {
			res.HarnessErr = "close: " + cerr.Error()
			return res
		}
		final, err := dump.RDB(dbdir)
		if err != nil {
			res.HarnessErr = "dump: " + err.Error()
			return res
		}
		if d := dump.Diff(final, lastWant, "database after the chain, closed and opened again", "database compiled from the last delivered file"); d != "" {
			res.Add("diff-result-wrong", "diff-result-wrong|after-close", fmt.Sprintf("chain of %d diffs through one open handle: %s", len(sc.Steps), d))
			return res
		}
		res.Probe("chain_through_one_handle_closed_and_reread")
	}
	return res
}

func faultName(st C08Step, readFired, injected bool) string {
	switch {
	case st.Undeliver != "":
		return st.Undeliver
	case readFired:
		return "reader-error"
	case injected:
		return "rocksdb-call-error"
	}
	return "none"
}

func TestC08(t *testing.T) {
	core.Explore(t, core.Check[C08Scenario]{Property: "C08", Draw: drawC08, Run: runC08, Summary: summaryC08, Batch: 20})
}
