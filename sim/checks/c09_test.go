package checks

import (
	"bytes"
	"errors"
	"fmt"
	"io"
	"sort"
	"strings"
	"testing"

	"pgregory.net/rapid"

	"github.com/facebookincubator/dns/dnsrocks/dnsdata"

	"dsim/core"
	"dsim/dump"
	"dsim/gen"
	"dsim/sched"
)

// ---- C09: text normal form and preprocessing preserve meaning ----------------------------------

// C09Scenario is one preprocessing run.
type C09Scenario struct {
	FileSeed uint64 `json:"file_seed"`
	Records  int    `json:"records"`
	Nets     int    `json:"nets"`
	V2       bool   `json:"v2"`
	BufSizes []int  `json:"buf_sizes"` // sizes of the buffers the consumer hands to PreprocReader.Read (cycled)
	SrcSizes []int  `json:"src_sizes,omitempty"`
	SrcErrAt int    `json:"src_err_at"`
	// DstErrAt >= 0: the run goes through Codec.Preprocess(r, w) and the destination fails (a full
	// disk) once that many bytes have been written; Preprocess must then report an error
	DstErrAt  int     `json:"dst_err_at"`
	NoFinalNL bool    `json:"no_final_newline,omitempty"`
	Tape      []uint8 `json:"tape"`
	TapeSeed  uint64  `json:"tape_seed"`
	Calm      int     `json:"calm"`
}

func drawC09(rt *rapid.T, tier string) C09Scenario {
	sc := C09Scenario{
		FileSeed:  rapid.Uint64Range(0, 1<<40).Draw(rt, "file_seed"),
		Records:   rapid.SampledFrom([]int{0, 2, 10, 60, 200}).Draw(rt, "records"),
		Nets:      rapid.SampledFrom([]int{0, 1, 8, 40, 150, 400}).Draw(rt, "nets"),
		V2:        rapid.Bool().Draw(rt, "v2"),
		BufSizes:  rapid.SliceOfN(rapid.SampledFrom([]int{1, 2, 3, 7, 31, 64, 511, 512, 513, 1000, 4096}), 1, 3).Draw(rt, "buf_sizes"),
		SrcErrAt:  -1,
		DstErrAt:  -1,
		NoFinalNL: rapid.IntRange(0, 5).Draw(rt, "nofinalnl") == 0,
		Calm:      rapid.IntRange(0, 2).Draw(rt, "calm"),
		TapeSeed:  rapid.Uint64().Draw(rt, "tape_seed"),
	}
	if rapid.IntRange(0, 2).Draw(rt, "src_segmented") == 0 {
		sc.SrcSizes = rapid.SliceOfN(rapid.SampledFrom([]int{1, 5, 100, 4096}), 1, 2).Draw(rt, "src_sizes")
	}
	if rapid.IntRange(0, 6).Draw(rt, "src_err") == 0 {
		sc.SrcErrAt = rapid.IntRange(0, 3000).Draw(rt, "src_err_at")
	}
	if sc.SrcErrAt < 0 && rapid.IntRange(0, 6).Draw(rt, "dst_err") == 0 {
		sc.DstErrAt = rapid.SampledFrom([]int{0, 1, 100, 511, 512, 513, 4096, 20000, 65535, 65536, 70000, 1 << 30}).Draw(rt, "dst_err_at")
		if sc.DstErrAt == 1<<30 {
			sc.DstErrAt = -2 // resolved at run time: the very last byte of the output
		}
	}
	sc.Tape = rapid.SliceOfN(rapid.Uint8(), 0, 64).Draw(rt, "tape")
	return sc
}

// fullDisk is an io.Writer that accepts limit bytes and then fails like a full disk.
type fullDisk struct {
	limit, n int
	fired    bool
}

func (w *fullDisk) Write(p []byte) (int, error) {
	if w.n+len(p) > w.limit {
		k := w.limit - w.n
		if k < 0 {
			k = 0
		}
		w.n += k
		w.fired = true
		return k, errors.New("simulated: no space left on device")
	}
	w.n += len(p)
	return len(p), nil
}

func summaryC09(sc C09Scenario) interface{} {
	return map[string]interface{}{"records": sc.Records, "subnet_lines": sc.Nets, "v2_keys": sc.V2, "consumer_buffer_sizes": sc.BufSizes,
		"source_read_sizes": sc.SrcSizes, "source_err_at": sc.SrcErrAt, "destination_err_at": sc.DstErrAt}
}

func preprocCodec() *dnsdata.Codec {
	c := new(dnsdata.Codec)
	c.Serial = 4242
	c.Acc.Ranger.Enable()
	c.Acc.NoPrefixSets = true
	c.NoRnetOutput = true
	return c
}

func splitLines(s string) []string {
	var out []string
	for _, l := range strings.Split(s, "\n") {
		if l != "" {
			out = append(out, l)
		}
	}
	return out
}

func runC09(t *testing.T, sc C09Scenario, keep bool) *core.Result {
	res := &core.Result{Population: "fault-free"}
	lines := gen.RandomFile(sc.FileSeed, gen.FileOpts{Records: sc.Records, Nets: sc.Nets, Tag: int(sc.FileSeed % 200)})
	text := strings.Join(lines, "\n")
	if !sc.NoFinalNL {
		text += "\n"
	}
	if sc.SrcErrAt >= len(text) {
		sc.SrcErrAt = -1
	}
	if sc.SrcErrAt >= 0 {
		res.Population = "faults"
	}
	// piggy-backed, labelled as input generation: every line round-trips through the text form
	rc := rdbCodec(4242, sc.V2)
	for _, l := range lines {
		if isIgnoredLine(l) {
			continue
		}
		r1, err := rc.DecodeLn([]byte(l))
		if err != nil {
			res.HarnessErr = "generator produced a rejected line: " + l
			return res
		}
		t1, err := r1.MarshalText()
		if err != nil {
			res.Add("roundtrip", "roundtrip|marshal", fmt.Sprintf("line %q: MarshalText failed: %v", l, err))
			return res
		}
		r2, err := rc.DecodeLn(t1)
		if err != nil {
			res.Add("roundtrip", "roundtrip|reparse", fmt.Sprintf("line %q re-serialises to %q which does not parse: %v", l, t1, err))
			return res
		}
		t2, _ := r2.MarshalText()
		if !bytes.Equal(t1, t2) {
			res.Add("roundtrip", "roundtrip|fixpoint", fmt.Sprintf("line %q: text %q re-serialises to %q", l, t1, t2))
			return res
		}
		if l[0] != '%' { // subnet lines only feed the accumulator
			m1, e1 := r1.MarshalMap()
			m2, e2 := r2.MarshalMap()
			if e1 != nil || e2 != nil || fmt.Sprint(m1) != fmt.Sprint(m2) {
				res.Add("roundtrip", "roundtrip|records", fmt.Sprintf("line %q and its normal form %q compile to different records", l, t1))
				return res
			}
		}
		res.Probe("lines_round_tripped")
	}

	if sc.DstErrAt != -1 {
		// the whole-file entry point with a destination that runs full
		res.Population = "faults"
		limit := sc.DstErrAt
		if limit == -2 {
			plain, err := preprocess(lines, 4242)
			if err != nil {
				res.HarnessErr = "plain preprocess: " + err.Error()
				return res
			}
			limit = len(strings.Join(plain, "\n")) // one byte short of the whole output
		}
		dst := &fullDisk{limit: limit}
		var perr error
		done := false
		opt := sched.Options{Tape: sc.Tape, TapeSeed: sc.TapeSeed, Calm: sc.Calm, KeepSchedule: keep, MaxSteps: 200000, NoAdvanceWhileEnabled: true}
		sched.Bubble(t, opt, func(s *sched.Sim) {
			s.Go("preprocess", false, func() {
				perr = preprocCodec().Preprocess(&segReader{data: []byte(text), st: C16Stream{Sizes: sc.SrcSizes, ErrAt: -1}}, dst)
				done = true
			})
			if err := s.Run(); err != nil {
				if errors.Is(err, sched.ErrDeadlock) {
					res.Add("deadlock", "deadlock", "preprocessing never finishes: "+err.Error())
				} else {
					res.HarnessErr = err.Error()
				}
			}
			res.FromSim(s)
		})
		if done && dst.fired {
			res.Fault("destination-write-error")
			if perr == nil {
				res.Add("error-swallowed", "error-swallowed|destination", fmt.Sprintf("the destination failed after %d bytes but Preprocess reported success: a truncated file passes for a complete one", dst.n))
			}
		}
		res.Nontrivial = len(lines) > 3
		res.TraceHash += fmt.Sprintf("/%x/dst%d", sc.FileSeed, sc.DstErrAt)
		return res
	}
	src := &segReader{data: []byte(text), st: C16Stream{Sizes: sc.SrcSizes, ErrAt: sc.SrcErrAt}}
	var out bytes.Buffer
	var rerr, secondErr error
	var second []string
	secondDone := false
	finished := false
	opt := sched.Options{Tape: sc.Tape, TapeSeed: sc.TapeSeed, Calm: sc.Calm, KeepSchedule: keep, MaxSteps: 200000, NoAdvanceWhileEnabled: true}
	sched.Bubble(t, opt, func(s *sched.Sim) {
		s.Go("consumer", false, func() {
			codec := preprocCodec()
			p := dnsdata.NewPreprocReader(src, codec)
			defer func() {
				// the accumulator can be exported again (a tool that preprocesses and compiles with one
				// codec does): the second export holds the same range-point lines as the first
				if rerr == nil && !src.fired && len(res.Violations) == 0 {
					if again, err := codec.Acc.MarshalText(); err != nil {
						secondErr = err
					} else {
						second = splitLines(string(again))
						secondDone = true
					}
				}
				finished = true
			}()
			for i := 0; ; i++ {
				buf := make([]byte, sc.BufSizes[i%len(sc.BufSizes)])
				n, err := p.Read(buf)
				out.Write(buf[:n])
				if err != nil {
					if err != io.EOF {
						rerr = err
					}
					break
				}
				if n == 0 {
					res.Add("reader-stalls", "reader-stalls", "PreprocReader.Read returned 0, nil for a non-empty buffer")
					break
				}
				s.Y("consumer.read")
			}
		})
		err := s.Run()
		res.FromSim(s)
		if err != nil {
			if errors.Is(err, sched.ErrDeadlock) {
				res.Add("deadlock", "deadlock", "preprocessing never finishes: "+err.Error())
			} else {
				res.HarnessErr = err.Error()
			}
		}
		for _, p := range s.Panics() {
			res.Add("panic", "panic", p)
		}
		if s.PointCover["ranger.chunk.send"] > 0 {
			res.Probe("producer_chunk_scheduled")
		}
	})
	if src.fired {
		res.Fault("source-read-error")
	}
	if len(sc.SrcSizes) > 0 {
		res.Fault("source-short-reads")
	}
	res.Fault("consumer-buffer-sizes")
	if !finished || res.HarnessErr != "" || len(res.Violations) > 0 {
		return res
	}
	if src.fired {
		if rerr == nil {
			res.Add("error-swallowed", "error-swallowed", "the source reader failed mid-file but preprocessing reported success")
		}
		return res
	}
	if rerr != nil {
		res.Add("preprocess-failed", "preprocess-failed", fmt.Sprintf("preprocessing a well-formed file failed: %v", rerr))
		return res
	}
	pp := splitLines(out.String())
	// the same text as with whole-buffer reads (order of range-point lines across maps is free)
	plain, err := preprocess(lines, 4242)
	if err != nil {
		res.HarnessErr = "plain preprocess: " + err.Error()
		return res
	}
	a, b := append([]string(nil), pp...), append([]string(nil), plain...)
	sort.Strings(a)
	sort.Strings(b)
	if strings.Join(a, "\n") != strings.Join(b, "\n") {
		res.Add("text-differs", "text-differs|by-read-size", fmt.Sprintf("with consumer buffers %v the preprocessed text has %d lines, with plain reads %d (lines lost, duplicated or cut at a buffer boundary)", sc.BufSizes, len(a), len(b)))
		return res
	}
	if secondErr != nil {
		res.Add("second-export-differs", "second-export-differs|error", "exporting the accumulator a second time failed: "+secondErr.Error())
		return res
	}
	if secondDone {
		var first []string
		for _, l := range pp {
			if l[0] == '!' {
				first = append(first, l)
			}
		}
		sort.Strings(first)
		sort.Strings(second)
		if strings.Join(first, "\n") != strings.Join(second, "\n") {
			res.Add("second-export-differs", "second-export-differs", fmt.Sprintf("the accumulator of the same codec exported a second time gives %d range-point lines, the first time %d (or other ones)", len(second), len(first)))
			return res
		}
		res.Probe("accumulator_exported_twice")
	}
	want, err := referenceDB(lines, rdbCodec(4242, sc.V2))
	if err != nil {
		res.HarnessErr = err.Error()
		return res
	}
	got, err := referenceDB(pp, rdbCodec(4242, sc.V2))
	if err != nil {
		res.Add("preprocessed-rejected", "preprocessed-rejected", fmt.Sprintf("the preprocessed text does not compile: %v", err))
		return res
	}
	if d := dump.Diff(got, want, "database of the preprocessed text", "database of the original"); d != "" {
		res.Add("meaning-changed", "meaning-changed", d)
		return res
	}
	// idempotence at database level
	pp2, err := preprocess(pp, 4242)
	if err != nil {
		res.Add("not-idempotent", "not-idempotent|error", err.Error())
		return res
	}
	got2, err := referenceDB(pp2, rdbCodec(4242, sc.V2))
	if err != nil || dump.Diff(got2, want, "twice preprocessed", "original") != "" {
		res.Add("not-idempotent", "not-idempotent", fmt.Sprintf("preprocessing twice changes the database: %v %s", err, dump.Diff(got2, want, "twice preprocessed", "original")))
		return res
	}
	for _, l := range pp {
		if l[0] == '!' {
			res.Probe("range_point_lines")
			break
		}
	}
	res.Nontrivial = len(lines) > 3
	res.TraceHash += fmt.Sprintf("/%x/%v", sc.FileSeed, sc.BufSizes)
	return res
}

func TestC09(t *testing.T) {
	core.Explore(t, core.Check[C09Scenario]{Property: "C09", Draw: drawC09, Run: runC09, Summary: summaryC09, Batch: 40})
}
