package checks

import (
	"context"
	"encoding/json"
	"fmt"
	"net"
	"os"
	"path/filepath"
	"sync"
	"testing"
	"time"

	"github.com/miekg/dns"

	dcdb "github.com/facebookincubator/dns/dnsrocks/dnsdata/cdb"
	"github.com/facebookincubator/dns/dnsrocks/dnsserver"
	"github.com/facebookincubator/dns/dnsrocks/dnsserver/stats"
	"github.com/facebookincubator/dns/dnsrocks/verifhook"

	"dsim/core"
	"dsim/sched"
)

// ---- C11, free-running tier: "concurrent use of the shared generator" ---------------------------
//
// In the controlled tier a draw from the shared random source is atomic (there is no yield point
// inside it). Here eight query goroutines draw from the real, shared source on real cores under the
// race detector. Judged, whatever the timing: the per-response invariants (one address for max
// answer 1, a declared positive-weight candidate), any race report, and proportionality of the
// pooled draws - a generator that is entered by two goroutines at once repeats or correlates draws,
// which shows as a distribution no honest source produces (Chernoff bound below e^-30, as in the
// controlled tier).

type c11FreeStats struct {
	Rounds     int      `json:"rounds"`
	Draws      int64    `json:"draws"`
	Violations []string `json:"violations"`
	WallS      float64  `json:"wall_s"`
	Seed       uint64   `json:"seed"`
}

func TestC11Free(t *testing.T) {
	env := core.GetEnv("C11")
	if os.Getenv("VERIF_RACE_TIER") == "" {
		t.Skip("the free-running tier is run by ./check")
	}
	verifhook.Attach(sched.Perturb{})
	defer verifhook.Attach(nil)
	fs := &c11FreeStats{Seed: env.Seed}
	start := time.Now()
	deadline := start.Add(time.Duration(env.BudgetS * float64(time.Second)))
	dir, err := os.MkdirTemp("", "c11free-")
	if err != nil {
		t.Fatal(err)
	}
	defer os.RemoveAll(dir)
	weightSets := [][]uint32{{1, 1, 2}, {3, 1, 0, 2}, {10, 1}, {1, 1, 1, 1, 1, 1}, {1000, 1, 999}}
	for round := 0; round == 0 || time.Now().Before(deadline); round++ {
		ws := weightSets[(int(env.Seed)+round)%len(weightSets)]
		sc := C11Scenario{}
		for i, w := range ws {
			sc.Cands = append(sc.Cands, C11Cand{K: 10 + i, W: w})
		}
		in, out := filepath.Join(dir, fmt.Sprintf("d%d.in", round)), filepath.Join(dir, fmt.Sprintf("d%d.cdb", round))
		if err := os.WriteFile(in, []byte(c11Data(&sc)), 0o644); err != nil {
			t.Fatal(err)
		}
		if _, err := dcdb.CreateCDB(in, out, &dcdb.CreatorOptions{NumCPU: 1}); err != nil {
			t.Fatal(err)
		}
		fb, err := dnsserver.NewFBDNSDBBasic(dnsserver.HandlerConfig{}, dnsserver.DBConfig{Path: out, Driver: "cdb"}, dnsserver.CacheConfig{}, &dnsserver.DummyLogger{}, &stats.DummyStats{})
		if err != nil {
			t.Fatal(err)
		}
		if err := fb.Load(); err != nil {
			t.Fatal(err)
		}
		_, positive := c11Visible(sc.Cands, 1, false)
		const workers, perWorker = 8, 6000
		counts := make([]map[string]int, workers)
		var mu sync.Mutex
		violate := func(format string, a ...interface{}) {
			mu.Lock()
			if len(fs.Violations) < 6 {
				fs.Violations = append(fs.Violations, fmt.Sprintf(format, a...))
			}
			mu.Unlock()
		}
		var wg sync.WaitGroup
		for w := 0; w < workers; w++ {
			w := w
			counts[w] = map[string]int{}
			wg.Add(1)
			go func() {
				defer wg.Done()
				for i := 0; i < perWorker; i++ {
					m := new(dns.Msg)
					m.SetQuestion("n.w.test.", dns.TypeA)
					wr := newRecWriter(c11Clients[0])
					_, _ = fb.ServeDNS(dnsserver.WithMaxAnswer(context.Background(), 1), wr, m)
					if len(wr.msgs) != 1 || len(wr.msgs[0].Answer) != 1 {
						violate("wrong-count: %d messages, answer %v for max answer 1 with %d positive-weight candidates", len(wr.msgs), wr.msgs, len(positive))
						return
					}
					a, ok := wr.msgs[0].Answer[0].(*dns.A)
					if !ok || !positive[a.A.String()] {
						violate("undeclared-address: %v is not a positive-weight candidate", wr.msgs[0].Answer[0])
						return
					}
					counts[w][a.A.String()]++
				}
			}()
		}
		wg.Wait()
		fb.Close()
		total := map[string]int{}
		n := 0
		for _, c := range counts {
			for k, v := range c {
				total[k] += v
				n += v
			}
		}
		var ips []string
		var weights []float64
		var sum float64
		for _, c := range sc.Cands {
			if c.W > 0 {
				ips = append(ips, net.ParseIP(c11IP(c)).String())
				weights = append(weights, float64(c.W))
				sum += float64(c.W)
			}
		}
		if n == workers*perWorker {
			if ip, d := c11Disproportion(n, ips, weights, sum, total); ip != "" {
				violate("not-proportional: %d concurrent draws over weights %v: %s was served %d times, expected about %.0f (bound exponent %.1f)", n, ws, ip, total[ip], d[0], d[1])
			}
		}
		fs.Draws += int64(n)
		fs.Rounds++
		if len(fs.Violations) > 0 {
			break
		}
	}
	fs.WallS = time.Since(start).Seconds()
	data, _ := json.MarshalIndent(fs, "", " ")
	_ = os.WriteFile(filepath.Join(env.OutDir, "race.json"), data, 0o644)
	for _, v := range fs.Violations {
		t.Errorf("RACE-TIER-VIOLATION %s", v)
	}
}
