package checks

import (
	"context"
	"errors"
	"fmt"
	"math"
	"net"
	"os"
	"path/filepath"
	"strings"
	"testing"

	"github.com/miekg/dns"
	"pgregory.net/rapid"

	"github.com/facebookincubator/dns/dnsrocks/db"
	dcdb "github.com/facebookincubator/dns/dnsrocks/dnsdata/cdb"
	"github.com/facebookincubator/dns/dnsrocks/dnsdata/rdb"
	"github.com/facebookincubator/dns/dnsrocks/dnsserver"
	"github.com/facebookincubator/dns/dnsrocks/dnsserver/stats"

	"dsim/core"
	"dsim/sched"
)

// ---- C11: weighted address selection is bounded, sound and proportional ------------------------

// C11Cand is one declared address record.
type C11Cand struct {
	K   int    `json:"k"`   // last byte of the address
	W   uint32 `json:"w"`   // weight
	Loc int    `json:"loc"` // 0 untagged, 1, 2
	V6  bool   `json:"v6,omitempty"`
}

// C11Query is one query.
type C11Query struct {
	Name   int  `json:"name"` // 0: n.w.test, 1: w.test NS (glue), 2: w.test MX (glue)
	V6     bool `json:"v6,omitempty"`
	Client int  `json:"client"` // 0: location 1, 1: location 2
	MaxAns int  `json:"max_ans"`
}

// C11Scenario is one run.
type C11Scenario struct {
	Cands    []C11Cand    `json:"cands"`
	Glue     []C11Cand    `json:"glue"` // address records of the NS / MX target
	Clients  [][]C11Query `json:"clients"`
	RandSeed int64        `json:"rand_seed"`
	Backend  string       `json:"backend,omitempty"` // "" = cdb, "rdb1", "rdb2" (the answer code differs per storage layout)
	Stat     bool         `json:"stat,omitempty"`    // also run the proportionality test (max answer 1, 20000 draws)
	Tape     []uint8      `json:"tape"`
	TapeSeed uint64       `json:"tape_seed"`
	Calm     int          `json:"calm"`
}

var c11Clients = []string{"192.0.2.1", "10.1.2.3"}
var c11Locs = []string{"", `\000\001`, `\000\002`}

func drawC11(rt *rapid.T, tier string) C11Scenario {
	cand := rapid.Custom(func(rt *rapid.T) C11Cand {
		return C11Cand{
			K:   rapid.IntRange(1, 250).Draw(rt, "k"),
			W:   rapid.SampledFrom([]uint32{0, 0, 1, 1, 1, 2, 3, 10, 1000, 4294967295}).Draw(rt, "w"),
			Loc: rapid.SampledFrom([]int{0, 0, 0, 1, 2}).Draw(rt, "loc"),
			V6:  rapid.IntRange(0, 3).Draw(rt, "v6") == 0,
		}
	})
	q := rapid.Custom(func(rt *rapid.T) C11Query {
		return C11Query{
			Name:   rapid.SampledFrom([]int{0, 0, 0, 1, 2}).Draw(rt, "name"),
			V6:     rapid.IntRange(0, 3).Draw(rt, "qv6") == 0,
			Client: rapid.IntRange(0, 1).Draw(rt, "client"),
			MaxAns: rapid.IntRange(1, 8).Draw(rt, "max_ans"),
		}
	})
	sc := C11Scenario{
		Cands:    rapid.SliceOfNDistinct(cand, 1, 12, func(c C11Cand) string { return fmt.Sprint(c.K, c.V6) }).Draw(rt, "cands"),
		Glue:     rapid.SliceOfNDistinct(cand, 0, 5, func(c C11Cand) string { return fmt.Sprint(c.K, c.V6) }).Draw(rt, "glue"),
		Clients:  rapid.SliceOfN(rapid.SliceOfN(q, 1, 8), 1, 4).Draw(rt, "clients"),
		RandSeed: rapid.Int64().Draw(rt, "rand_seed"),
		Stat:     rapid.IntRange(0, 9).Draw(rt, "stat") == 0,
		Calm:     rapid.IntRange(0, 2).Draw(rt, "calm"),
		TapeSeed: rapid.Uint64().Draw(rt, "tape_seed"),
	}
	if rapid.IntRange(0, 9).Draw(rt, "rocksdb") == 0 { // a RocksDB run costs as much as twenty CDB runs
		sc.Backend = rapid.SampledFrom([]string{"rdb1", "rdb2", "rdb2"}).Draw(rt, "backend")
	}
	sc.Tape = rapid.SliceOfN(rapid.Uint8(), 0, 64).Draw(rt, "tape")
	return sc
}

func summaryC11(sc C11Scenario) interface{} {
	var cs []string
	for _, c := range sc.Cands {
		cs = append(cs, fmt.Sprintf("%s w=%d loc=%d", c11IP(c), c.W, c.Loc))
	}
	n := 0
	for _, c := range sc.Clients {
		n += len(c)
	}
	return map[string]interface{}{"candidates": cs, "glue_records": len(sc.Glue), "clients": len(sc.Clients), "queries": n, "proportionality_test": sc.Stat, "backend": sc.Backend}
}

func c11IP(c C11Cand) string {
	if c.V6 {
		return fmt.Sprintf("2001:db8::%x", c.K)
	}
	return fmt.Sprintf("198.51.100.%d", c.K)
}

func c11Data(sc *C11Scenario) string {
	l := []string{
		`%\000\001,0.0.0.0/0,c\000`, `%\000\001,::/0,c\000`, `%\000\002,10.1.0.0/16,c\000`, `Mw.test,c\000`, `M*.w.test,c\000`,
		"Zw.test,ns1.w.test,dns.w.test,1,7200,1800,604800,120,120,,",
		"&w.test,,ns1.w.test,300,,",
		"@w.test,,ns1.w.test,10,300,,",
	}
	for _, c := range sc.Cands {
		l = append(l, fmt.Sprintf("+n.w.test,%s,300,,%s,%d", c11IP(c), c11Locs[c.Loc], c.W))
	}
	for _, c := range sc.Glue {
		l = append(l, fmt.Sprintf("+ns1.w.test,%s,300,,%s,%d", c11IP(c), c11Locs[c.Loc], c.W))
	}
	return strings.Join(l, "\n") + "\n"
}

// visible returns the candidates a client in location loc (1 or 2) may be served, by family.
func c11Visible(cands []C11Cand, loc int, v6 bool) (all, positive map[string]bool) {
	all, positive = map[string]bool{}, map[string]bool{}
	for _, c := range cands {
		if c.V6 != v6 || (c.Loc != 0 && c.Loc != loc) {
			continue
		}
		all[net.ParseIP(c11IP(c)).String()] = true
		if c.W > 0 {
			positive[net.ParseIP(c11IP(c)).String()] = true
		}
	}
	return
}

// c11Disproportion tests every address against its binomial expectation with the Chernoff bound
// P(deviation at least this large) <= exp(-n*KL(observed/n || p)), which holds for every n and p (a
// chi-square table does not when an expected count is small: one draw of an address expected 0.005
// times gives chi-square 200). An address is reported when the bound is below e^-30.
func c11Disproportion(n int, ips []string, weights []float64, total float64, count map[string]int) (string, [2]float64) {
	const limit = 30.0
	term := func(a, b float64) float64 {
		if a == 0 {
			return 0
		}
		return a * math.Log(a/b)
	}
	for i, ip := range ips {
		p := weights[i] / total
		if p <= 0 || p >= 1 {
			continue
		}
		q := float64(count[ip]) / float64(n)
		if d := float64(n) * (term(q, p) + term(1-q, 1-p)); d > limit {
			return ip, [2]float64{float64(n) * p, d}
		}
	}
	return "", [2]float64{}
}

func runC11(t *testing.T, sc C11Scenario, keep bool) *core.Result {
	res := &core.Result{Population: "fault-free"}
	dir, err := os.MkdirTemp("", "c11-")
	if err != nil {
		res.HarnessErr = err.Error()
		return res
	}
	defer os.RemoveAll(dir)
	in, out := filepath.Join(dir, "data.in"), filepath.Join(dir, "data.cdb")
	if err := os.WriteFile(in, []byte(c11Data(&sc)), 0o644); err != nil {
		res.HarnessErr = err.Error()
		return res
	}
	driver := "cdb"
	if sc.Backend == "" {
		if _, err := dcdb.CreateCDB(in, out, &dcdb.CreatorOptions{NumCPU: 1}); err != nil {
			res.HarnessErr = "compile: " + err.Error()
			return res
		}
	} else {
		driver, out = "rocksdb", filepath.Join(dir, "data.rdb")
		if err := os.MkdirAll(out, 0o755); err != nil {
			res.HarnessErr = err.Error()
			return res
		}
		if _, err := rdb.CompileToSpecificRDBVersion(in, out, rdb.CompilationOptions{NumCPU: 1, UseV2KeySyntax: sc.Backend == "rdb2", BatchSize: 100000, BatchNumParallel: 1}); err != nil {
			res.HarnessErr = "compile: " + err.Error()
			return res
		}
		res.Probe("rocksdb_backend")
	}
	fb, err := dnsserver.NewFBDNSDBBasic(dnsserver.HandlerConfig{}, dnsserver.DBConfig{Path: out, Driver: driver}, dnsserver.CacheConfig{}, &dnsserver.DummyLogger{}, &stats.DummyStats{})
	if err != nil {
		res.HarnessErr = err.Error()
		return res
	}
	if err := fb.Load(); err != nil {
		res.HarnessErr = err.Error()
		return res
	}
	defer fb.Close()
	db.VerifSeedRand(sc.RandSeed)

	ask := func(q C11Query) *dns.Msg {
		m := new(dns.Msg)
		switch q.Name {
		case 0:
			qt := dns.TypeA
			if q.V6 {
				qt = dns.TypeAAAA
			}
			m.SetQuestion("n.w.test.", qt)
		case 1:
			m.SetQuestion("w.test.", dns.TypeNS)
		default:
			m.SetQuestion("w.test.", dns.TypeMX)
		}
		w := newRecWriter(c11Clients[q.Client])
		_, _ = fb.ServeDNS(dnsserver.WithMaxAnswer(context.Background(), q.MaxAns), w, m)
		if len(w.msgs) == 0 {
			return nil
		}
		return w.msgs[0]
	}
	judge := func(q C11Query, r *dns.Msg, where string) {
		if r == nil {
			res.Add("no-response", "no-response", where+": nothing written")
			return
		}
		loc := q.Client + 1
		if q.Name == 0 {
			all, pos := c11Visible(sc.Cands, loc, q.V6)
			want := q.MaxAns
			if len(pos) < want {
				want = len(pos)
			}
			seen := map[string]bool{}
			n := 0
			for _, rr := range r.Answer {
				var ip net.IP
				switch x := rr.(type) {
				case *dns.A:
					ip = x.A
					if q.V6 {
						res.Add("wrong-family", "wrong-family", where+": A record in answer to AAAA")
					}
				case *dns.AAAA:
					ip = x.AAAA
					if !q.V6 {
						res.Add("wrong-family", "wrong-family", where+": AAAA record in answer to A")
					}
				default:
					continue
				}
				n++
				s := ip.String()
				switch {
				case seen[s]:
					res.Add("repeated-address", "repeated-address", fmt.Sprintf("%s: %s served twice", where, s))
				case !all[s]:
					res.Add("undeclared-address", "undeclared-address", fmt.Sprintf("%s: %s is not a declared candidate visible to this client", where, s))
				case !pos[s]:
					res.Add("weight-zero-served", "weight-zero-served", fmt.Sprintf("%s: %s has weight 0 but was served", where, s))
				}
				seen[s] = true
			}
			if n != want {
				res.Add("wrong-count", "wrong-count", fmt.Sprintf("%s: %d address(es) served, expected min(max %d, %d positive-weight candidates) = %d", where, n, q.MaxAns, len(pos), want))
			}
			if len(all) > 0 && r.Rcode != dns.RcodeSuccess {
				res.Add("name-denied", "name-denied", fmt.Sprintf("%s: rcode %s although the name has %d visible record(s)", where, dns.RcodeToString[r.Rcode], len(all)))
			}
			if len(all) > len(pos) {
				res.Probe("weight_zero_candidate_visible")
			}
			if len(pos) > q.MaxAns && q.MaxAns > 1 {
				res.Probe("more_candidates_than_slots")
			}
			return
		}
		// NS / MX: additional section follows the same rule with a maximum of one per family
		for _, v6 := range []bool{false, true} {
			all, pos := c11Visible(sc.Glue, loc, v6)
			n := 0
			for _, rr := range r.Extra {
				var ip net.IP
				switch x := rr.(type) {
				case *dns.A:
					if v6 {
						continue
					}
					ip = x.A
				case *dns.AAAA:
					if !v6 {
						continue
					}
					ip = x.AAAA
				default:
					continue
				}
				n++
				if !all[ip.String()] {
					res.Add("undeclared-address", "undeclared-address|glue", fmt.Sprintf("%s: glue %s is not a declared visible record of the target", where, ip))
				} else if !pos[ip.String()] {
					res.Add("weight-zero-served", "weight-zero-served|glue", fmt.Sprintf("%s: glue %s has weight 0", where, ip))
				}
			}
			want := 0
			if len(pos) > 0 {
				want = 1
			}
			if n != want {
				res.Add("wrong-count", "wrong-count|glue", fmt.Sprintf("%s: %d glue record(s) of family v6=%v, expected %d", where, n, v6, want))
			}
		}
		res.Probe("glue_checked")
	}

	opt := sched.Options{Tape: sc.Tape, TapeSeed: sc.TapeSeed, Calm: sc.Calm, KeepSchedule: keep, MaxSteps: 50000, NoAdvanceWhileEnabled: true}
	sched.Bubble(t, opt, func(s *sched.Sim) {
		for ci, qs := range sc.Clients {
			ci, qs := ci, qs
			s.Go(fmt.Sprintf("client%d", ci), false, func() {
				for qi, q := range qs {
					s.Y("client.next")
					r := ask(q)
					judge(q, r, fmt.Sprintf("client %d query %d %+v", ci, qi, q))
				}
			})
		}
		err := s.Run()
		res.FromSim(s)
		if err != nil {
			if errors.Is(err, sched.ErrDeadlock) {
				res.Add("deadlock", "deadlock", err.Error())
			} else {
				res.HarnessErr = err.Error()
			}
		}
		for _, p := range s.Panics() {
			res.Add("panic", "panic", p)
		}
	})
	if sc.Stat && len(res.Violations) == 0 && res.HarnessErr == "" {
		// proportionality: max answer 1, client in location 1, N draws, chi-square against the weights
		_, pos := c11Visible(sc.Cands, 1, false)
		var ips []string
		var weights []float64
		total := 0.0
		for _, c := range sc.Cands {
			if !c.V6 && (c.Loc == 0 || c.Loc == 1) && c.W > 0 {
				ips = append(ips, net.ParseIP(c11IP(c)).String())
				weights = append(weights, float64(c.W))
				total += float64(c.W)
			}
		}
		if len(pos) >= 2 {
			const N = 20000
			count := map[string]int{}
			for i := 0; i < N; i++ {
				r := ask(C11Query{Name: 0, Client: 0, MaxAns: 1})
				if r == nil || len(r.Answer) != 1 {
					res.Add("wrong-count", "wrong-count|stat", "a draw of the proportionality test did not return exactly one address")
					break
				}
				count[r.Answer[0].(*dns.A).A.String()]++
			}
			if cell, dev := c11Disproportion(N, ips, weights, total, count); cell != "" {
				res.Add("not-proportional", "not-proportional", fmt.Sprintf("%d draws over weights %v gave counts %v: %s was chosen %d times where %.1f were expected (probability of a deviation this large < e^-%.0f)", N, weights, count, cell, count[cell], dev[0], dev[1]))
			}
			res.Probe("proportionality_tested")
		}
		// the same for the glue of the NS target (one address per family, chosen by weight)
		var gips []string
		var gw []float64
		gtotal := 0.0
		for _, c := range sc.Glue {
			if !c.V6 && (c.Loc == 0 || c.Loc == 1) && c.W > 0 {
				gips = append(gips, net.ParseIP(c11IP(c)).String())
				gw = append(gw, float64(c.W))
				gtotal += float64(c.W)
			}
		}
		if len(gips) >= 2 && len(res.Violations) == 0 {
			const N = 20000
			count := map[string]int{}
			for i := 0; i < N; i++ {
				r := ask(C11Query{Name: 1, Client: 0, MaxAns: 1})
				if r == nil {
					break
				}
				for _, rr := range r.Extra {
					if a, ok := rr.(*dns.A); ok {
						count[a.A.String()]++
					}
				}
			}
			if cell, dev := c11Disproportion(N, gips, gw, gtotal, count); cell != "" {
				res.Add("not-proportional", "not-proportional|glue", fmt.Sprintf("%d NS queries over glue weights %v gave counts %v: %s was chosen %d times where %.1f were expected (probability of a deviation this large < e^-%.0f)", N, gw, count, cell, count[cell], dev[0], dev[1]))
			}
			res.Probe("glue_proportionality_tested")
		}
	}
	res.Nontrivial = len(sc.Cands) > 1
	res.TraceHash += fmt.Sprintf("/%d/%d", sc.RandSeed, len(sc.Cands))
	return res
}

func TestC11(t *testing.T) {
	core.Explore(t, core.Check[C11Scenario]{Property: "C11", Draw: drawC11, Run: runC11, Summary: summaryC11, Batch: 40})
}
