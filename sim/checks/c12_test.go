package checks

import (
	"context"
	"fmt"
	"sort"
	"strings"
	"sync"
	"testing"

	"github.com/miekg/dns"
	"pgregory.net/rapid"

	"github.com/facebookincubator/dns/dnsrocks/dnsserver"
	"github.com/facebookincubator/dns/dnsrocks/dnsserver/stats"

	"dsim/core"
	"dsim/gen"
)

// ---- C12: the response cache is invisible ------------------------------------------------------

// refHandlers are cache-off, never reloaded handlers, one per (backend, generation, key
// present), on the same backend kind as the system under test. They live outside any bubble.
var (
	refMu       sync.Mutex
	refHandlers = map[string]*dnsserver.FBDNSDB{}
	refAnswers  = map[string]*dns.Msg{}
)

func refHandler(backend string, g int, noKey bool) *dnsserver.FBDNSDB {
	key := fmt.Sprintf("%s-%d-%v", backend, g, noKey)
	if h, ok := refHandlers[key]; ok {
		return h
	}
	f := gen.TheFarm()
	var path string
	if backend == "cdb" {
		path = f.CDB(g, noKey)
	} else {
		path = f.RDB(g, backend == "rdb2", noKey)
	}
	h, err := dnsserver.NewFBDNSDBBasic(dnsserver.HandlerConfig{}, dnsserver.DBConfig{Path: path, Driver: srvDriver(backend)},
		dnsserver.CacheConfig{}, &dnsserver.DummyLogger{}, &stats.DummyStats{})
	if err != nil {
		panic(err)
	}
	if err := h.Load(); err != nil {
		panic(err)
	}
	refHandlers[key] = h
	return h
}

// refResponse is what a cache-off handler on generation g answers to the request of q.
func refResponse(backend string, g int, noKey bool, q *QRec) *dns.Msg {
	refMu.Lock()
	defer refMu.Unlock()
	key := fmt.Sprintf("%s-%d-%v-%d-%d-%v-%d-%v-%d-%d", backend, g, noKey, q.Q.Q, q.Q.Client, q.Q.EDNS, q.Q.ECS, q.Q.BadVers, q.Q.Hdr, q.Q.Opt)
	if m, ok := refAnswers[key]; ok {
		return m
	}
	h := refHandler(backend, g, noKey)
	w := newRecWriter(gen.Clients[q.Q.Client%len(gen.Clients)])
	_, _ = h.ServeDNS(context.Background(), w, q.Req.Copy()) // its own deep copy: the location code writes into the request
	var m *dns.Msg
	if len(w.msgs) > 0 {
		m = w.msgs[0]
	}
	refAnswers[key] = m
	return m
}

func rrKey(rr dns.RR) string {
	c := dns.Copy(rr)
	c.Header().Name = strings.ToLower(c.Header().Name)
	return c.String()
}

func sectionKeys(rrs []dns.RR) []string {
	var out []string
	for _, rr := range rrs {
		if rr.Header().Rrtype == dns.TypeOPT {
			o := rr.(*dns.OPT)
			var opts []string
			for _, e := range o.Option {
				opts = append(opts, e.String())
			}
			out = append(out, fmt.Sprintf("OPT udp=%d ver=%d do=%v rcode=%d opts=%v", o.UDPSize(), o.Version(), o.Do(), o.ExtendedRcode(), opts))
			continue
		}
		out = append(out, rrKey(rr))
	}
	sort.Strings(out)
	return out
}

// diffResponses compares a response with the reference (sections as multisets, owner-name case
// folded); "" = equal. A section subject to weighted selection (wAns / wExtra) is compared by
// shape: the non-address records exactly, the address records by count per family and by
// membership in the declared address space of the generated data (10.g.g.1 .. 10.g.g.24).
func diffResponses(got, want *dns.Msg, wAns, wExtra bool) string {
	if got == nil || want == nil {
		if got == nil && want == nil {
			return ""
		}
		return fmt.Sprintf("one of the two handlers wrote nothing (cache on: %v, cache off: %v)", got != nil, want != nil)
	}
	if got.Rcode != want.Rcode {
		return fmt.Sprintf("rcode %d, cache-off handler says %d", got.Rcode, want.Rcode)
	}
	if got.Authoritative != want.Authoritative || got.Truncated != want.Truncated || got.Response != want.Response || got.Opcode != want.Opcode || got.RecursionDesired != want.RecursionDesired ||
		got.CheckingDisabled != want.CheckingDisabled || got.AuthenticatedData != want.AuthenticatedData || got.RecursionAvailable != want.RecursionAvailable {
		return fmt.Sprintf("header flags differ: %v vs %v", got.MsgHdr, want.MsgHdr)
	}
	if len(got.Question) != len(want.Question) || (len(got.Question) > 0 && got.Question[0] != want.Question[0]) {
		return fmt.Sprintf("question differs: %v vs %v", got.Question, want.Question)
	}
	secs := []struct {
		name     string
		a, b     []dns.RR
		weighted bool
	}{{"answer", got.Answer, want.Answer, wAns}, {"authority", got.Ns, want.Ns, false}, {"additional", got.Extra, want.Extra, wExtra}}
	for _, s := range secs {
		a, b := s.a, s.b
		if s.weighted {
			split := func(rrs []dns.RR) (rest []dns.RR, n4, n6 int, bad string) {
				for _, rr := range rrs {
					switch x := rr.(type) {
					case *dns.A:
						n4++
						ip := x.A.To4()
						if ip == nil || ip[0] != 10 || ip[3] == 0 || ip[3] > 24 {
							bad = rr.String()
						}
					case *dns.AAAA:
						n6++
					default:
						rest = append(rest, rr)
					}
				}
				return
			}
			ra, a4, a6, bad := split(a)
			rb, b4, b6, _ := split(b)
			if bad != "" {
				return fmt.Sprintf("%s record %s is not one of the declared candidates", s.name, bad)
			}
			if a4 != b4 || a6 != b6 {
				return fmt.Sprintf("%s has %d A / %d AAAA records, cache-off handler gives %d / %d", s.name, a4, a6, b4, b6)
			}
			a, b = ra, rb
		}
		ka, kb := sectionKeys(a), sectionKeys(b)
		if strings.Join(ka, "\n") != strings.Join(kb, "\n") {
			return fmt.Sprintf("%s section differs:\n  cache on : %v\n  cache off: %v", s.name, ka, kb)
		}
	}
	return ""
}

func stripOPT(rrs []dns.RR) []dns.RR {
	var out []dns.RR
	for _, rr := range rrs {
		if rr.Header().Rrtype != dns.TypeOPT {
			out = append(out, rr)
		}
	}
	return out
}

func drawC12(rt *rapid.T, tier string) SrvScenario {
	o := srvDrawOpts{backends: []string{"cdb", "cdb", "cdb", "cdb", "cdb", "rdb1", "rdb2"}, maxClients: 4, maxQueries: 6, maxOps: 4,
		faults: []string{"missing", "nokey", "inject", "lowio"}, cache: true, jumps: true, ecs: true, badvers: true, cleanupDirect: true}
	if tier == "thorough" {
		o.backends = []string{"cdb", "cdb", "rdb1", "rdb2"}
		o.maxQueries = 8
		o.maxOps = 6
	}
	sc := drawSrv(rt, o)
	// let some clients wait past the lifetime of cache entries (1000 s; WRS timeout 5 s) so that
	// expired entries are met
	for ci := range sc.Clients {
		for qi := range sc.Clients[ci] {
			if qi > 0 && rapid.IntRange(0, 9).Draw(rt, "long_wait") == 0 {
				sc.Clients[ci][qi].SleepMs = rapid.SampledFrom([]int{5500, 999000, 1001500}).Draw(rt, "long_wait_ms")
			}
		}
	}
	// concentrate the queries on few cache keys so that hits happen
	focus := rapid.IntRange(0, 2).Draw(rt, "focus")
	if focus > 0 {
		pool := []int{rapid.IntRange(0, len(gen.Queries)-1).Draw(rt, "focus_q1"), rapid.IntRange(0, len(gen.Queries)-1).Draw(rt, "focus_q2")}
		if focus == 2 {
			// pairs of shapes that a sloppy cache key confuses: key texts that collide, the same name
			// and type in another class, types and classes that are equal modulo 256, letter case,
			// the same name with another type
			pool = rapid.SampledFrom([][]int{{17, 18}, {17, 18}, {0, 21}, {3, 22}, {0, 23}, {0, 17}, {0, 13}, {0, 1}, {0, 6}, {2, 3, 4}}).Draw(rt, "focus_pair")
		}
		for ci := range sc.Clients {
			for qi := range sc.Clients[ci] {
				sc.Clients[ci][qi].Q = pool[(ci+qi+sc.Clients[ci][qi].Q)%len(pool)]
			}
		}
	}
	return sc
}

func runC12(t *testing.T, sc SrvScenario, keep bool) *core.Result {
	res := &core.Result{}
	sc.Cache = true
	if sc.LRUSize == 0 {
		sc.LRUSize = 1024
	}
	h := runSrv(t, &sc, keep, res, nil)
	if res.HarnessErr != "" || h.Sim == nil {
		return res
	}
	judgeGenerations(&sc, h, res, "stale-read")
	// torn responses and failed reloads that became visible are statements of C05, not of C12:
	// keep only what C12 says (nothing of a previous generation after a completed reload)
	kept := res.Violations[:0]
	for _, v := range res.Violations {
		switch v.Kind {
		case "torn-response", "failed-reload-visible", "followed-stale-path", "unknown-generation", "valid-reload-failed":
			res.Probe("c05_matter_ignored")
		default:
			kept = append(kept, v)
		}
	}
	res.Violations = kept
	// refine the signature of stale reads: was the stale answer served from the cache?
	byKey := map[string]*QRec{}
	for _, q := range h.Queries {
		byKey[fmt.Sprintf("%d/%d", q.Client, q.Idx)] = q
	}
	for i := range res.Violations {
		v := &res.Violations[i]
		if v.Kind == "stale-read" {
			var c, k int
			if _, err := fmt.Sscanf(v.Detail, "client %d query %d", &c, &k); err == nil {
				if q := byKey[fmt.Sprintf("%d/%d", c, k)]; q != nil && q.Counters["DNS_cache.hit"] > 0 {
					v.Signature += "|via=cache-hit"
					v.Detail += " (served from the response cache: a query computed on the old generation inserted its answer after the reload's purge)"
				}
			}
		}
	}
	noKeyOf := map[int]bool{}
	for _, o := range h.Ops {
		if o.Op.Kind == "reload" {
			noKeyOf[o.Gen] = o.Op.Fault == "nokey"
		}
	}
	hits := 0
	var excused []*QRec
	for _, q := range h.Queries {
		if q.Ret == 0 {
			continue
		}
		hits += int(q.Counters["DNS_cache.hit"])
		if q.Counters["DNS_cache.hit"] > 0 {
			res.Probe("cache_hit")
		}
		if q.Counters["DNS_cache.expired"] > 0 {
			res.Probe("cache_expired")
		}
		g := q.Stamp
		if g == -2 || g >= 900 {
			continue // torn or decoy: reported by the generation oracle
		}
		if g == -1 {
			g = 1 // no stamped record (REFUSED): every generation gives the same answer
		}
		want := refResponse(sc.Backend, g, noKeyOf[g], q)
		if q.Resp != nil && want != nil && q.Resp.Truncated && want.Truncated {
			// which records survive truncation depends on the order of the values under one key,
			// which is not part of the database's meaning (a diff-updated RocksDB and a freshly
			// compiled one hold the same multiset in different orders): compare the kept records
			// with the untruncated reference answer instead
			res.Probe("truncated_response_compared_by_membership")
			big := *q
			big.Req = q.Req.Copy()
			big.Req.SetEdns0(65000, false)
			big.Q.EDNS = true
			big.Q.ECS = 99 // a distinct reference-cache slot
			full := refResponse(sc.Backend, g, noKeyOf[g], &big)
			in := map[string]bool{}
			if full != nil {
				for _, k := range sectionKeys(full.Answer) {
					in[k] = true
				}
			}
			d := ""
			for _, k := range sectionKeys(q.Resp.Answer) {
				if !in[k] {
					d = "answer: truncated response carries " + k + " which the full answer does not hold"
				}
			}
			if q.Resp.Rcode != want.Rcode {
				d = fmt.Sprintf("rcode %d, cache-off handler says %d", q.Resp.Rcode, want.Rcode)
			}
			if d != "" {
				res.Add("cache-visible", "cache-visible|truncated", fmt.Sprintf("client %d query %d (%s): %s", q.Client, q.Idx, describeQ(q), d))
			}
			continue
		}
		if (gen.Weighted(q.Q.Q) || gen.WeightedExtra(q.Q.Q)) && sc.WRSTimeout == 0 && q.Counters["DNS_cache.hit"] > 0 {
			res.Add("weighted-answer-cached", "weighted-answer-cached", fmt.Sprintf("client %d query %d (%s): an answer subject to weighted selection was served from the cache although no WRS timeout is configured", q.Client, q.Idx, describeQ(q)))
		}
		if d := diffResponses(q.Resp, want, gen.Weighted(q.Q.Q), gen.WeightedExtra(q.Q.Q)); d != "" {
			// RocksDB catches up in place: a query in flight across a catch-up can take its location
			// from one generation and its records from the next (C05's known finding, not a matter
			// of the cache). Such a response is excused here, and so is a later cache hit that
			// serves exactly that response again.
			if sc.Backend != "cdb" {
				excuse := catchUpInside(h, q)
				if !excuse && q.Counters["DNS_cache.hit"] > 0 {
					for _, e := range excused {
						if e.Q.Q == q.Q.Q && e.Ret < q.Ret && diffResponses(q.Resp, e.Resp, false, false) == "" {
							excuse = true
						} else if e.Q.Q == q.Q.Q && e.Ret < q.Ret {
							// same entry, other requester: compare the cached part only
							a, b := q.Resp.Copy(), e.Resp.Copy()
							a.Id, b.Id = 0, 0
							a.Question, b.Question = nil, nil
							a.Extra, b.Extra = stripOPT(a.Extra), stripOPT(b.Extra)
							if diffResponses(a, b, false, false) == "" {
								excuse = true
							}
						}
					}
				}
				if !excuse && q.Counters["DNS_cache.hit"] > 0 {
					// a catch-up that took effect without a successful reload after it (the reload timed
					// out or was rejected: C05's recorded finding) changes the data under a cache that
					// nobody purges, and rightly so from the server's point of view: the reload failed.
					// A hit on an entry from before that catch-up is C05's matter as well.
					var lastOK uint64
					for _, o := range h.Ops {
						if o.Op.Kind == "reload" && o.Done && o.OK && o.Ret < q.Inv && o.Ret > lastOK {
							lastOK = o.Ret
						}
					}
					for _, cu := range h.Mon.CatchUps {
						p := cu.At
						if p == 0 {
							p = cu.End
						}
						if p > lastOK && p < q.Ret {
							excuse = true
						}
					}
				}
				if excuse {
					excused = append(excused, q)
					res.Probe("c05_matter_ignored")
					continue
				}
			}
			via := "computed"
			if q.Counters["DNS_cache.hit"] > 0 {
				via = "cache-hit"
			}
			first := strings.SplitN(d, ":", 2)[0]
			first = strings.SplitN(first, ",", 2)[0]
			res.Add("cache-visible", fmt.Sprintf("cache-visible|via=%s|what=%s", via, strings.Fields(first)[0]),
				fmt.Sprintf("client %d query %d (%s, %s) differs from the cache-off handler on generation %d: %s", q.Client, q.Idx, describeQ(q), via, g, d))
		}
	}
	res.Population = srvPopulation(&sc)
	res.Nontrivial = hits > 0 || res.Probes["query_overlaps_reload"] > 0
	return res
}

func TestC12(t *testing.T) {
	core.Explore(t, core.Check[SrvScenario]{Property: "C12", Draw: drawC12, Run: runC12, Summary: summarySrv, Batch: 40})
}
