package checks

import (
	"fmt"
	"strings"
	"testing"

	"pgregory.net/rapid"

	"dsim/core"
)

// ---- C14 tier (a): controlled schedules - no deadlock, no crash --------------------------------

func drawC14(rt *rapid.T, tier string) SrvScenario {
	o := srvDrawOpts{backends: []string{"cdb", "cdb", "cdb", "rdb1", "rdb2"}, maxClients: 4, maxQueries: 5, maxOps: 5,
		faults: []string{"missing", "nokey", "inject", "lowio"}, closeOp: true, periodic: true, stats: true, signals: true, proc: 3, cleanup: true}
	if tier == "thorough" {
		o.backends = []string{"cdb", "rdb1", "rdb2"}
		o.maxQueries = 7
		o.maxOps = 6
	}
	sc := drawSrv(rt, o)
	sc.Cache = rapid.Bool().Draw(rt, "cache")
	sc.LRUSize = 8
	// let fake time pass so that the periodic reload ticker and the stats reporter fire
	for i := range sc.Ops {
		if rapid.IntRange(0, 2).Draw(rt, "long_sleep") == 0 {
			sc.Ops[i].SleepMs = rapid.SampledFrom([]int{997, 1003, 2111, 7013}).Draw(rt, "long_sleep_ms")
		}
	}
	return sc
}

func runC14(t *testing.T, sc SrvScenario, keep bool) *core.Result {
	res := &core.Result{}
	h := runSrv(t, &sc, keep, res, nil)
	if res.HarnessErr != "" || h.Sim == nil {
		return res
	}
	// keep what C14 states: deadlock, panic; plus calls that reach a closed storage back end
	// (intercepted by the monitor: on the real cgo back end they are a crash)
	kept := res.Violations[:0]
	for _, v := range res.Violations {
		if v.Kind == "deadlock" || v.Kind == "panic" {
			kept = append(kept, v)
		}
	}
	res.Violations = kept
	for _, v := range h.Mon.Snapshot() {
		if !strings.HasPrefix(v, "use-after-close") {
			continue
		}
		call := "?"
		if f := strings.Fields(v); len(f) > 1 {
			call = f[1]
		}
		if call == "GetStats" && sc.Backend == "cdb" {
			continue // the CDB driver's GetStats returns a literal empty map: it does not touch the closed file
		}
		ctx := "?"
		for _, b := range h.Mon.Backends {
			if strings.Contains(v, fmt.Sprintf("b%d(", b.ID)) {
				ctx = b.ClosedCtx
				if i := strings.Index(ctx, ":"); i >= 0 {
					ctx = ctx[i+1:]
				}
			}
		}
		res.Add("crash-use-after-close", fmt.Sprintf("crash-use-after-close|call=%s|closed-during=%s", call, ctx),
			"a storage back end was called after it had been closed (a crash with the real cgo / mmap back ends): "+v)
	}
	if h.Closed {
		res.Probe("shutdown_reached")
	}
	if sc.PeriodicS > 0 {
		res.Probe("periodic_reload_running")
	}
	if sc.StatsEvery > 0 {
		res.Probe("stats_reporter_running")
	}
	if len(sc.Signals) > 0 && h.Closed {
		res.Probe("async_signals_and_shutdown")
	}
	if sc.Proc {
		res.Probe("whole_process_run")
		if h.Closed {
			res.Probe("whole_process_run_with_shutdown")
		}
	}
	res.Population = srvPopulation(&sc)
	res.Nontrivial = res.Switches > 0
	return res
}

func TestC14(t *testing.T) {
	core.Explore(t, core.Check[SrvScenario]{Property: "C14", Draw: drawC14, Run: runC14, Summary: summarySrv, Batch: 40})
}
