package checks

import (
	"encoding/json"
	"fmt"
	"math/rand"
	"os"
	"path/filepath"
	"sort"
	"strings"
	"sync"
	"testing"
	"time"

	"github.com/facebookincubator/dns/dnsrocks/dnsdata/rdb"
	"github.com/facebookincubator/dns/dnsrocks/verifhook"

	"dsim/core"
	"dsim/sched"
)

// ---- C15, free-running tier ---------------------------------------------------------------------
//
// The controlled tier pre-empts a read-modify-write only at its yield points (before the write
// lock, between the read and the write). Here four writers work on two hot keys of one real store
// on real cores (hooks in perturbation mode, race detector on). Every value is unique and only its
// owner ever deletes it, so two statements hold whatever the timing:
//
//	conservation  at the end a key holds exactly the values whose Add (or batch addition) returned
//	              nil minus those whose Del (or batch deletion) returned nil
//	own delete    deleting a value one has added oneself, and not yet deleted, succeeds

type c15FreeStats struct {
	Rounds     int      `json:"rounds"`
	Ops        int64    `json:"operations"`
	Violations []string `json:"violations"`
	WallS      float64  `json:"wall_s"`
	Seed       uint64   `json:"seed"`
}

func freeRoundC15(dir string, seed uint64, fs *c15FreeStats) {
	store, err := rdb.NewRDB(dir)
	if err != nil {
		fs.Violations = append(fs.Violations, "harness: "+err.Error())
		return
	}
	keys := []string{"hot", "hot\x00"}
	const writers, opsEach = 4, 60
	type own struct{ live map[string][]string } // key -> values this writer added and has not deleted
	var mu sync.Mutex
	expect := map[string]map[string]bool{keys[0]: {}, keys[1]: {}}
	violate := func(format string, a ...interface{}) {
		mu.Lock()
		if len(fs.Violations) < 5 {
			fs.Violations = append(fs.Violations, fmt.Sprintf(format, a...))
		}
		mu.Unlock()
	}
	var wg sync.WaitGroup
	for w := 0; w < writers; w++ {
		w := w
		wg.Add(1)
		go func() {
			defer wg.Done()
			r := rand.New(rand.NewSource(int64(seed)*97 + int64(w)))
			mine := own{live: map[string][]string{}}
			n := 0
			fresh := func() string { n++; return fmt.Sprintf("w%d-%d", w, n) }
			added := func(k, v string) {
				mine.live[k] = append(mine.live[k], v)
				mu.Lock()
				expect[k][v] = true
				mu.Unlock()
			}
			removed := func(k, v string) {
				l := mine.live[k]
				for i := range l {
					if l[i] == v {
						mine.live[k] = append(l[:i:i], l[i+1:]...)
						break
					}
				}
				mu.Lock()
				delete(expect[k], v)
				mu.Unlock()
			}
			for i := 0; i < opsEach; i++ {
				k := keys[r.Intn(len(keys))]
				switch c := r.Intn(6); {
				case c < 2:
					v := fresh()
					if err := store.Add([]byte(k), []byte(v)); err != nil {
						violate("wrong-error: Add(%q,%q) failed: %v", k, v, err)
						return
					}
					added(k, v)
				case c < 4 && len(mine.live[k]) > 0:
					v := mine.live[k][r.Intn(len(mine.live[k]))]
					if err := store.Del([]byte(k), []byte(v)); err != nil {
						violate("own-delete-failed: Del(%q,%q) of a value this writer added and nobody else deletes failed: %v", k, v, err)
						return
					}
					removed(k, v)
				default:
					b := store.CreateBatch()
					var adds, dels [][2]string
					for j := r.Intn(3); j >= 0; j-- {
						kk := keys[r.Intn(len(keys))]
						v := fresh()
						b.Add([]byte(kk), []byte(v))
						adds = append(adds, [2]string{kk, v})
					}
					if len(mine.live[k]) > 0 && r.Intn(2) == 0 {
						v := mine.live[k][r.Intn(len(mine.live[k]))]
						b.Del([]byte(k), []byte(v))
						dels = append(dels, [2]string{k, v})
					}
					if err := store.ExecuteBatch(b); err != nil {
						violate("own-delete-failed: a batch adding fresh values and deleting %v (a value of this writer) failed: %v", dels, err)
						return
					}
					for _, a := range adds {
						added(a[0], a[1])
					}
					for _, d := range dels {
						removed(d[0], d[1])
					}
				}
				mu.Lock()
				fs.Ops++
				mu.Unlock()
			}
		}()
	}
	wg.Wait()
	for _, k := range keys {
		var got []string
		_ = store.ForEach([]byte(k), func(v []byte) error { got = append(got, string(v)); return nil }, rdb.NewContext())
		var want []string
		for v := range expect[k] {
			want = append(want, v)
		}
		sort.Strings(got)
		sort.Strings(want)
		if strings.Join(got, ",") != strings.Join(want, ",") && len(fs.Violations) == 0 {
			missing, extra := 0, 0
			in := map[string]bool{}
			for _, v := range got {
				in[v] = true
			}
			for _, v := range want {
				if !in[v] {
					missing++
				}
			}
			for _, v := range got {
				if !expect[k][v] {
					extra++
				}
			}
			violate("not-conserved: key %q holds %d values after %d concurrent writers finished; %d values whose addition succeeded are missing, %d values whose deletion succeeded are back", k, len(got), writers, missing, extra)
		}
	}
	if err := store.Close(); err != nil {
		violate("close-failed: %v", err)
	}
	fs.Rounds++
}

func TestC15Free(t *testing.T) {
	env := core.GetEnv("C15")
	if os.Getenv("VERIF_RACE_TIER") == "" {
		t.Skip("the free-running tier is run by ./check")
	}
	verifhook.Attach(sched.Perturb{})
	defer verifhook.Attach(nil)
	fs := &c15FreeStats{Seed: env.Seed}
	start := time.Now()
	deadline := start.Add(time.Duration(env.BudgetS * float64(time.Second)))
	base, err := os.MkdirTemp("", "c15free-")
	if err != nil {
		t.Fatal(err)
	}
	defer os.RemoveAll(base)
	for round := 0; (round == 0 || time.Now().Before(deadline)) && len(fs.Violations) == 0; round++ {
		dir := filepath.Join(base, fmt.Sprintf("db%d", round))
		if err := os.MkdirAll(dir, 0o755); err != nil {
			t.Fatal(err)
		}
		freeRoundC15(dir, env.Seed*1000+uint64(round), fs)
		os.RemoveAll(dir)
	}
	fs.WallS = time.Since(start).Seconds()
	data, _ := json.MarshalIndent(fs, "", " ")
	_ = os.WriteFile(filepath.Join(env.OutDir, "race.json"), data, 0o644)
	for _, v := range fs.Violations {
		t.Errorf("RACE-TIER-VIOLATION %s", v)
	}
}
