package checks

import (
	"errors"
	"fmt"
	"os"
	"path/filepath"
	"sort"
	"strings"
	"testing"
	"time"

	"github.com/anishathalye/porcupine"
	"pgregory.net/rapid"

	rocksdb "github.com/facebookincubator/dns/dnsrocks/cgo-rocksdb"
	"github.com/facebookincubator/dns/dnsrocks/dnsdata/rdb"

	"dsim/core"
	"dsim/dump"
	"dsim/mon"
	"dsim/sched"
)

// ---- C15: the RocksDB multi-value store behaves like a map of lists ---------------------------

var c15Keys = []string{"a", "ab", "b", "a\x00", ""} // the empty key is a legal RocksDB key and the store accepts it
var c15Vals = []string{"", "x", "xy", "xz", "y", "xyz", "\x00\x00\x00\x00", "\x01\x00\x00\x00x"}

// C15KV is one key/value reference into the alphabets.
type C15KV struct {
	K int `json:"k"`
	V int `json:"v"`
}

// C15Op is one store operation.
type C15Op struct {
	Kind string  `json:"kind"` // "add", "del", "batch", "read"
	K    int     `json:"k,omitempty"`
	V    int     `json:"v,omitempty"`
	Adds []C15KV `json:"adds,omitempty"`
	Dels []C15KV `json:"dels,omitempty"`
}

// C15Scenario is one history.
type C15Scenario struct {
	Callers [][]C15Op `json:"callers"`
	FailAt  []int     `json:"fail_at,omitempty"` // indices of low-level RocksDB calls that fail
	// FailWrite >= 0: the k-th low-level write of a batch (ExecuteBatch) fails, after the batch has been
	// read, merged and built
	FailWrite int     `json:"fail_write"`
	Backup    bool    `json:"backup,omitempty"`
	Tape      []uint8 `json:"tape"`
	TapeSeed  uint64  `json:"tape_seed"`
	Calm      int     `json:"calm"`
}

func drawC15(rt *rapid.T, tier string) C15Scenario {
	kv := rapid.Custom(func(rt *rapid.T) C15KV {
		return C15KV{K: rapid.IntRange(0, len(c15Keys)-1).Draw(rt, "k"), V: rapid.IntRange(0, len(c15Vals)-1).Draw(rt, "v")}
	})
	op := rapid.Custom(func(rt *rapid.T) C15Op {
		switch rapid.IntRange(0, 6).Draw(rt, "kind") {
		case 0, 1:
			x := kv.Draw(rt, "kv")
			return C15Op{Kind: "add", K: x.K, V: x.V}
		case 2, 3:
			x := kv.Draw(rt, "kv")
			return C15Op{Kind: "del", K: x.K, V: x.V}
		case 4:
			return C15Op{Kind: "batch", Adds: rapid.SliceOfN(kv, 0, 5).Draw(rt, "adds"), Dels: rapid.SliceOfN(kv, 0, 4).Draw(rt, "dels")}
		case 5:
			if rapid.IntRange(0, 2).Draw(rt, "clear") == 0 {
				// a batch that removes every value the key holds at that moment (one caller only: the
				// deletions are taken from the model when the operation runs; with several callers it is a read)
				return C15Op{Kind: "clear", K: rapid.IntRange(0, len(c15Keys)-1).Draw(rt, "k")}
			}
			if rapid.IntRange(0, 2).Draw(rt, "reopen") == 0 {
				// close the store and open it again (a clean restart: RocksDB replays its log and flushes
				// it into table files). Only runs with a private store and one caller do it; elsewhere it is a read.
				return C15Op{Kind: "reopen", K: rapid.IntRange(0, len(c15Keys)-1).Draw(rt, "k")}
			}
		}
		return C15Op{Kind: "read", K: rapid.IntRange(0, len(c15Keys)-1).Draw(rt, "k")}
	})
	maxOps := 10
	if tier == "thorough" {
		maxOps = 14
	}
	sc := C15Scenario{
		Callers:  rapid.SliceOfN(rapid.SliceOfN(op, 1, maxOps), 1, 3).Draw(rt, "callers"),
		Backup:   rapid.IntRange(0, 5).Draw(rt, "backup") == 0,
		Calm:     rapid.IntRange(0, 2).Draw(rt, "calm"),
		TapeSeed: rapid.Uint64().Draw(rt, "tape_seed"),
	}
	if sc.Backup && rapid.Bool().Draw(rt, "restart_history") {
		// a history of one caller on a private store, mostly about one key, so that the key is written,
		// flushed by a restart, rewritten, emptied and restarted again within a dozen operations
		hot := rapid.IntRange(0, len(c15Keys)-1).Draw(rt, "hot_key")
		ops := sc.Callers[0]
		for i := range ops {
			if rapid.IntRange(0, 2).Draw(rt, "hot") != 0 {
				ops[i].K = hot
				for j := range ops[i].Adds {
					ops[i].Adds[j].K = hot
				}
				for j := range ops[i].Dels {
					ops[i].Dels[j].K = hot
				}
			}
			switch rapid.IntRange(0, 7).Draw(rt, "force") {
			case 0:
				ops[i] = C15Op{Kind: "reopen", K: hot}
			case 1:
				ops[i] = C15Op{Kind: "clear", K: hot}
			}
		}
		sc.Callers = [][]C15Op{ops}
	}
	sc.FailWrite = -1
	if rapid.IntRange(0, 2).Draw(rt, "faulty") == 0 {
		sc.FailAt = rapid.SliceOfN(rapid.IntRange(0, 40), 1, 3).Draw(rt, "fail_at")
		if rapid.IntRange(0, 2).Draw(rt, "fail_a_write") == 0 {
			sc.FailWrite = rapid.IntRange(0, 2).Draw(rt, "fail_write")
		}
	}
	sc.Tape = rapid.SliceOfN(rapid.Uint8(), 0, 96).Draw(rt, "tape")
	return sc
}

func summaryC15(sc C15Scenario) interface{} {
	var cs []string
	for _, c := range sc.Callers {
		var s []string
		for _, o := range c {
			switch o.Kind {
			case "batch":
				s = append(s, fmt.Sprintf("batch(+%d,-%d)", len(o.Adds), len(o.Dels)))
			case "read":
				s = append(s, fmt.Sprintf("read(%q)", c15Keys[o.K]))
			case "reopen":
				s = append(s, "reopen")
			case "clear":
				s = append(s, fmt.Sprintf("batch(-all of %q)", c15Keys[o.K]))
			default:
				s = append(s, fmt.Sprintf("%s(%q,%q)", o.Kind, c15Keys[o.K], c15Vals[o.V]))
			}
		}
		cs = append(cs, strings.Join(s, " "))
	}
	return map[string]interface{}{"callers": cs, "fail_at": sc.FailAt, "backup": sc.Backup}
}

// the sequential reference: map key -> list of values
type c15Model map[string][]string

func (m c15Model) clone() c15Model {
	n := c15Model{}
	for k, v := range m {
		n[k] = append([]string(nil), v...)
	}
	return n
}

func (m c15Model) del(k, v string) bool {
	for i, x := range m[k] {
		if x == v {
			m[k] = append(append([]string(nil), m[k][:i]...), m[k][i+1:]...)
			return true
		}
	}
	return false
}

func (m c15Model) encode() string {
	var parts []string
	for _, k := range c15Keys {
		v := append([]string(nil), m[k]...)
		sort.Strings(v)
		parts = append(parts, fmt.Sprintf("%q=%q", k, v))
	}
	return strings.Join(parts, ";")
}

type c15Out struct {
	err      bool
	injected bool
	vals     []string // sorted, for reads
	first    string
	firstOK  bool
}

type c15In struct {
	op C15Op
}

func c15Apply(m c15Model, op C15Op) (c15Model, bool) {
	n := m.clone()
	switch op.Kind {
	case "add":
		n[c15Keys[op.K]] = append(n[c15Keys[op.K]], c15Vals[op.V])
		return n, true
	case "del":
		if !n.del(c15Keys[op.K], c15Vals[op.V]) {
			return m, false
		}
		return n, true
	case "batch":
		for _, a := range op.Adds {
			n[c15Keys[a.K]] = append(n[c15Keys[a.K]], c15Vals[a.V])
		}
		for _, d := range op.Dels {
			if !n.del(c15Keys[d.K], c15Vals[d.V]) {
				return m, false
			}
		}
		return n, true
	}
	return m, true
}

var c15PorcupineModel = porcupine.Model{
	Init: func() interface{} { return c15Model{} },
	Step: func(state, input, output interface{}) (bool, interface{}) {
		m := state.(c15Model)
		op := input.(c15In).op
		out := output.(c15Out)
		if op.Kind == "read" {
			if out.err {
				return out.injected, m
			}
			want := append([]string(nil), m[c15Keys[op.K]]...)
			sort.Strings(want)
			return strings.Join(want, "\x00|") == strings.Join(out.vals, "\x00|") && len(want) == len(out.vals), m
		}
		n, ok := c15Apply(m, op)
		if out.err {
			// a failed operation changes nothing; it may fail because a fault was injected
			// into it or because the model says it must (absent key / value)
			return out.injected || !ok, m
		}
		return ok, n
	},
	Equal: func(a, b interface{}) bool { return a.(c15Model).encode() == b.(c15Model).encode() },
	DescribeOperation: func(input, output interface{}) string {
		return fmt.Sprintf("%+v -> %+v", input.(c15In).op, output.(c15Out))
	},
}

func runC15(t *testing.T, sc C15Scenario, keep bool) *core.Result {
	res := &core.Result{Population: "fault-free"}
	if len(sc.FailAt) > 0 {
		res.Population = "faults"
	}
	dir, err := os.MkdirTemp("", "c15-")
	if err != nil {
		res.HarnessErr = err.Error()
		return res
	}
	defer os.RemoveAll(dir)
	// one real store per process (opening RocksDB costs ~0.3 s); every run starts by emptying it
	if c15Store == nil {
		c15Dir, err = os.MkdirTemp("", "c15db-")
		if err != nil {
			res.HarnessErr = err.Error()
			return res
		}
		c15Store, err = rdb.NewRDB(c15Dir)
		if err != nil {
			res.HarnessErr = err.Error()
			return res
		}
		rdb.VerifWrapDBI(c15Store, func(in rdb.DBI) rdb.DBI { c15Base = in; return in })
	}
	dbdir := c15Dir
	store := c15Store
	base := c15Base
	if sc.Backup {
		// a backup is taken from a closed database: these runs get a private store
		dbdir = filepath.Join(dir, "db")
		_ = os.MkdirAll(dbdir, 0o755)
		store, err = rdb.NewRDB(dbdir)
		if err != nil {
			res.HarnessErr = err.Error()
			return res
		}
		rdb.VerifWrapDBI(store, func(in rdb.DBI) rdb.DBI { base = in; return in })
	}
	if !sc.Backup {
		// the shared store is emptied through the store's own interface, one value at a time: how the
		// implementation removes a key (which kind of tombstone) is its own business and must not be
		// mixed with raw deletes of the harness. A private store starts empty.
		for _, k := range c15Keys {
			var vals [][]byte
			_ = store.ForEach([]byte(k), func(v []byte) error { vals = append(vals, append([]byte(nil), v...)); return nil }, rdb.NewContext())
			for _, v := range vals {
				if err := store.Del([]byte(k), v); err != nil {
					res.HarnessErr = "reset: " + err.Error()
					return res
				}
			}
		}
	}
	opt := sched.Options{Tape: sc.Tape, TapeSeed: sc.TapeSeed, Calm: sc.Calm, KeepSchedule: keep, MaxSteps: 20000, NoAdvanceWhileEnabled: true}
	var final c15Model
	sched.Bubble(t, opt, func(s *sched.Sim) {
		injectedFor := map[string]bool{} // task name -> the operation in progress was hit by a fault
		fi := &mon.FaultyRDBI{FailAt: map[int]bool{}}
		for _, i := range sc.FailAt {
			fi.FailAt[i] = true
		}
		if sc.FailWrite >= 0 {
			fi.FailNamed = map[string]int{"ExecuteBatch": sc.FailWrite}
		}
		fi.OnFail = func(call string, idx int) {
			injectedFor[s.TaskName()] = true
			res.Fault("rocksdb-call-error:" + call)
		}
		fi.DBI = base
		rdb.VerifWrapDBI(store, func(rdb.DBI) rdb.DBI { return fi })
		var hist []porcupine.Operation
		storeDead := false // the handle was closed and could not be replaced: nothing may touch it any more
		sequential := len(sc.Callers) == 1
		model := c15Model{}
		readKey := func(k string) c15Out {
			var vals []string
			err := store.ForEach([]byte(k), func(v []byte) error { vals = append(vals, string(v)); return nil }, rdb.NewContext())
			out := c15Out{err: err != nil}
			if len(vals) > 0 {
				out.first, out.firstOK = vals[0], true
			}
			sort.Strings(vals)
			out.vals = vals
			return out
		}
		verifySeq := func(oi int, op C15Op, out c15Out) bool {
			// step-by-step comparison with the model over the whole key alphabet
			if ok, _ := c15PorcupineModel.Step(model, c15In{op}, out); !ok {
				res.Add("store-wrong", "store-wrong|"+op.Kind, fmt.Sprintf("operation #%d %+v returned %+v which the map-of-lists model %s does not allow", oi, op, out, model.encode()))
				return true
			}
			if !out.err && op.Kind != "read" {
				model, _ = c15Apply(model, op)
			}
			if op.Kind == "add" && !out.err {
				// an Add appends: the new value is the last one of the key's list
				var vals []string
				_ = store.ForEach([]byte(c15Keys[op.K]), func(v []byte) error { vals = append(vals, string(v)); return nil }, rdb.NewContext())
				if len(vals) == 0 || vals[len(vals)-1] != c15Vals[op.V] {
					res.Add("store-wrong", "store-wrong|add-not-appended", fmt.Sprintf("after Add(%q,%q) the list is %q", c15Keys[op.K], c15Vals[op.V], vals))
					return true
				}
			}
			for _, k := range c15Keys {
				got := readKey(k)
				want := append([]string(nil), model[k]...)
				sort.Strings(want)
				if got.err || strings.Join(got.vals, "\x00|") != strings.Join(want, "\x00|") || len(got.vals) != len(want) {
					res.Add("store-wrong", "store-wrong|after-"+op.Kind, fmt.Sprintf("after operation #%d %+v (returned error: %v, fault injected: %v) key %q holds %q, the model holds %q",
						oi, op, out.err, out.injected, k, got.vals, want))
					return true
				}
				if v, e := store.Find([]byte(k), rdb.NewContext()); (e == nil) != got.firstOK || (e == nil && string(v) != got.first) {
					res.Add("store-wrong", "store-wrong|find", fmt.Sprintf("Find(%q) = %q, %v but ForEach starts with %q (present %v)", k, v, e, got.first, got.firstOK))
					return true
				}
			}

			return false
		}
		for ci, ops := range sc.Callers {
			ci, ops := ci, ops
			name := fmt.Sprintf("caller%d", ci)
			s.Go(name, false, func() {
				for oi, op := range ops {
					s.Y("caller.next")
					injectedFor[name] = false
					inv := s.Seq()
					var out c15Out
					if op.Kind == "clear" {
						if sequential {
							op = C15Op{Kind: "batch"}
							for _, v := range model[c15Keys[ops[oi].K]] {
								op.Dels = append(op.Dels, C15KV{K: ops[oi].K, V: indexOf(c15Vals, v)})
							}
							res.Probe("batch_emptied_a_key")
						} else {
							op.Kind = "read"
						}
					}
					switch op.Kind {
					case "add":
						out.err = store.Add([]byte(c15Keys[op.K]), []byte(c15Vals[op.V])) != nil
					case "del":
						e := store.Del([]byte(c15Keys[op.K]), []byte(c15Vals[op.V]))
						out.err = e != nil
						if e != nil && !injectedFor[name] && !errors.Is(e, rdb.ErrNXKey) && !errors.Is(e, rdb.ErrNXVal) {
							res.Add("wrong-error", "wrong-error|del", fmt.Sprintf("Del(%q,%q) failed with %v", c15Keys[op.K], c15Vals[op.V], e))
						}
					case "batch":
						b := store.CreateBatch()
						for _, a := range op.Adds {
							b.Add([]byte(c15Keys[a.K]), []byte(c15Vals[a.V]))
						}
						for _, d := range op.Dels {
							b.Del([]byte(c15Keys[d.K]), []byte(c15Vals[d.V]))
						}
						out.err = store.ExecuteBatch(b) != nil
					case "read":
						out = readKey(c15Keys[op.K])
					case "reopen":
						if sc.Backup && sequential {
							fi.Suspend = true
							if cerr := store.Close(); cerr != nil {
								res.Add("store-wrong", "store-wrong|close-failed", "closing the store (before opening it again) failed: "+cerr.Error())
								storeDead = true
								return
							}
							ns, oerr := rdb.NewRDB(dbdir)
							if oerr != nil {
								res.HarnessErr = "reopen: " + oerr.Error()
								return
							}
							store = ns
							rdb.VerifWrapDBI(store, func(in rdb.DBI) rdb.DBI { base = in; fi.DBI = in; return fi })
							fi.Suspend = false
							res.Probe("store_reopened")
						}
						op.Kind = "read" // for the model a restart is a read: it must change nothing
						out = readKey(c15Keys[op.K])
					}
					out.injected = injectedFor[name]
					ret := s.Seq()
					hist = append(hist, porcupine.Operation{ClientId: ci, Input: c15In{op}, Call: int64(inv), Output: out, Return: int64(ret)})
					if sequential {
						fi.Suspend = true
						bad := verifySeq(oi, op, out)
						fi.Suspend = false
						if bad {
							return
						}
					}
				}
			})
		}
		err = s.Run()
		res.FromSim(s)
		if err != nil {
			if errors.Is(err, sched.ErrDeadlock) {
				res.Add("deadlock", "deadlock", err.Error())
			} else {
				res.HarnessErr = err.Error()
			}
		}
		for _, p := range s.Panics() {
			res.Add("panic", "panic", p)
		}
		if storeDead {
			return
		}
		// final reads belong to the history
		fi.FailAt, fi.FailNamed = map[int]bool{}, nil
		final = c15Model{}
		for _, k := range c15Keys {
			inv := s.Seq()
			out := readKey(k)
			ret := s.Seq()
			final[k] = out.vals
			hist = append(hist, porcupine.Operation{ClientId: 99, Input: c15In{C15Op{Kind: "read", K: indexOf(c15Keys, k)}}, Call: int64(inv), Output: out, Return: int64(ret)})
		}
		if !sequential && len(res.Violations) == 0 {
			switch porcupine.CheckOperationsTimeout(c15PorcupineModel, hist, 10*time.Second) {
			case porcupine.Illegal:
				res.Add("not-linearizable", "not-linearizable", fmt.Sprintf("the history of %d concurrent operations (final content %s) is not a linearization of the map-of-lists model", len(hist), final.encode()))
			case porcupine.Unknown:
				res.Probe("porcupine_unknown")
			}
		}
		rdb.VerifWrapDBI(store, func(rdb.DBI) rdb.DBI { return base })
		if sc.Backup {
			if cerr := store.Close(); cerr != nil {
				// a private store that was only ever used through Add / Del / ExecuteBatch / reads
				res.Add("store-wrong", "store-wrong|close-failed", "closing the store failed: "+cerr.Error())
			}
		}
		if res.Switches > 0 {
			res.Probe("preempted_inside_read_modify_write")
		}
	})
	if sc.Backup && res.HarnessErr == "" && len(res.Violations) == 0 {
		bdir, rdir := filepath.Join(dir, "backup"), filepath.Join(dir, "restored")
		_ = os.MkdirAll(bdir, 0o755)
		if err := rdb.Backup(dbdir, bdir); err != nil {
			res.Add("backup-failed", "backup-failed", err.Error())
		} else if err := rdb.Restore(rdir, bdir); err != nil {
			res.Add("restore-failed", "restore-failed", err.Error())
		} else {
			a, e1 := dump.RDB(dbdir)
			b, e2 := dump.RDB(rdir)
			if e1 != nil || e2 != nil {
				res.HarnessErr = fmt.Sprintf("dump: %v %v", e1, e2)
			} else if d := dump.Diff(b, a, "restored", "source"); d != "" {
				res.Add("restore-differs", "restore-differs", d)
			} else {
				want := dump.DB{}
				for k, v := range final {
					for _, x := range v {
						want.Add([]byte(k), []byte(x))
					}
				}
				if d := dump.Diff(b, want.Normalize(), "restored", "model"); d != "" {
					res.Add("restore-differs", "restore-differs|model", d)
				}
			}
			res.Probe("backup_restore")
		}
	}
	res.Nontrivial = res.Steps > 2
	return res
}

var (
	c15Store     *rdb.RDB
	c15Dir       string
	c15Base      rdb.DBI
	c15WriteOpts = rocksdb.NewWriteOptions(false, true, true, false, false)
)

func indexOf(l []string, s string) int {
	for i, x := range l {
		if x == s {
			return i
		}
	}
	return -1
}

func TestC15(t *testing.T) {
	core.Explore(t, core.Check[C15Scenario]{Property: "C15", Draw: drawC15, Run: runC15, Summary: summaryC15, Batch: 40})
}
