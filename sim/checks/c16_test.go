package checks

import (
	"bytes"
	"errors"
	"fmt"
	"io"
	"os"
	"path/filepath"
	"strconv"
	"testing"

	"pgregory.net/rapid"

	cdb "github.com/repustate/go-cdb"

	"dsim/core"
	"dsim/sched"
)

// ---- C16: a written CDB file returns every value; dump -> make reproduces the file -------------
//
// The simulated environment here is the I/O: the readers and writers handed to cdb.Dump and
// cdb.Make are cut up (legal short reads) and failed by the scenario. There is no concurrency,
// so no bubble and no scheduler; the lookup facet is piggy-backed input generation.

// C16Pair describes one key/value pair compactly.
type C16Pair struct {
	K  int `json:"k"`  // key identity
	KL int `json:"kl"` // key length (0 = empty key)
	V  int `json:"v"`
	VL int `json:"vl"` // value length (0 = empty value)
}

// C16Stream is how one stream behaves.
type C16Stream struct {
	Sizes []int `json:"sizes"`  // read sizes, cycled; 0 = as much as asked
	ErrAt int   `json:"err_at"` // inject an error once this many bytes went through (-1 = never)
}

// C16Scenario is one case.
type C16Scenario struct {
	Pairs    []C16Pair `json:"pairs"`
	Bulk     int       `json:"bulk"` // additional pseudo-random pairs
	BulkSeed uint64    `json:"bulk_seed"`
	DumpIn   C16Stream `json:"dump_in"`
	DumpOut  C16Stream `json:"dump_out"`
	MakeIn   C16Stream `json:"make_in"`
	MakeOut  C16Stream `json:"make_out"`
}

func c16Bytes(id, n int, tag byte) []byte {
	if n == 0 {
		return []byte{}
	}
	b := []byte(string(tag) + strconv.Itoa(id) + ";")
	for len(b) < n {
		b = append(b, b...)
	}
	return b[:n]
}

func (sc *C16Scenario) pairs() (keys, vals [][]byte) {
	for _, p := range sc.Pairs {
		keys = append(keys, c16Bytes(p.K, p.KL, 'k'))
		vals = append(vals, c16Bytes(p.V, p.VL, 'v'))
	}
	x := sc.BulkSeed
	for i := 0; i < sc.Bulk; i++ {
		x = core.SplitMix(x)
		k := int(x % uint64(sc.Bulk/2+1))
		kl := 1 + int((x>>20)%12)
		vl := int((x >> 32) % 40)
		keys = append(keys, c16Bytes(k, kl, 'k'))
		vals = append(vals, c16Bytes(i, vl, 'v'))
	}
	return
}

type segReader struct {
	data  []byte
	pos   int
	st    C16Stream
	i     int
	fired bool
}

var errStream = errors.New("injected stream error")

func (r *segReader) Read(p []byte) (int, error) {
	sched.Heartbeat.Add(1) // input being consumed is progress (long free-running compilations have no scheduler steps)
	if len(p) == 0 {
		return 0, nil
	}
	if r.st.ErrAt >= 0 && r.pos >= r.st.ErrAt {
		r.fired = true
		return 0, errStream
	}
	if r.pos >= len(r.data) {
		return 0, io.EOF
	}
	n := len(p)
	if len(r.st.Sizes) > 0 {
		if s := r.st.Sizes[r.i%len(r.st.Sizes)]; s > 0 && s < n {
			n = s
		}
		r.i++
	}
	if rem := len(r.data) - r.pos; n > rem {
		n = rem
	}
	if r.st.ErrAt >= 0 && r.pos+n > r.st.ErrAt {
		n = r.st.ErrAt - r.pos
		if n == 0 {
			r.fired = true
			return 0, errStream
		}
	}
	copy(p, r.data[r.pos:r.pos+n])
	r.pos += n
	return n, nil
}

type memWS struct {
	buf   []byte
	pos   int
	total int
	errAt int
	fired bool
}

func (w *memWS) Write(p []byte) (int, error) {
	if w.errAt >= 0 && w.total+len(p) > w.errAt {
		w.fired = true
		return 0, errStream
	}
	if need := w.pos + len(p); need > len(w.buf) {
		w.buf = append(w.buf, make([]byte, need-len(w.buf))...)
	}
	copy(w.buf[w.pos:], p)
	w.pos += len(p)
	w.total += len(p)
	return len(p), nil
}

func (w *memWS) Seek(off int64, whence int) (int64, error) {
	switch whence {
	case io.SeekStart:
		w.pos = int(off)
	case io.SeekCurrent:
		w.pos += int(off)
	case io.SeekEnd:
		w.pos = len(w.buf) + int(off)
	}
	return int64(w.pos), nil
}

var c16Sizes = []int{0, 1, 2, 3, 4, 5, 7, 4095, 4096, 4097}

func drawC16(rt *rapid.T, tier string) C16Scenario {
	genPair := rapid.Custom(func(rt *rapid.T) C16Pair {
		return C16Pair{
			K:  rapid.IntRange(0, 40).Draw(rt, "k"),
			KL: rapid.SampledFrom([]int{0, 1, 2, 3, 3, 3, 8, 300}).Draw(rt, "kl"),
			V:  rapid.IntRange(0, 1000).Draw(rt, "v"),
			VL: rapid.SampledFrom([]int{0, 1, 5, 5, 17, 100, 4090, 5000}).Draw(rt, "vl"),
		}
	})
	genStream := func(name string, faulty bool) C16Stream {
		st := C16Stream{ErrAt: -1}
		st.Sizes = rapid.SliceOfN(rapid.SampledFrom(c16Sizes), 0, 4).Draw(rt, name+"_sizes")
		if faulty {
			st.ErrAt = rapid.IntRange(0, 20000).Draw(rt, name+"_err_at")
		}
		return st
	}
	sc := C16Scenario{Pairs: rapid.SliceOfN(genPair, 0, 60).Draw(rt, "pairs")}
	switch rapid.IntRange(0, 9).Draw(rt, "bulk_kind") {
	case 0, 1, 2:
		sc.Bulk = rapid.IntRange(1, 600).Draw(rt, "bulk")
	case 3:
		if tier == "thorough" {
			sc.Bulk = rapid.IntRange(600, 30000).Draw(rt, "bulk_big")
		} else {
			sc.Bulk = rapid.IntRange(600, 3000).Draw(rt, "bulk_mid")
		}
	}
	sc.BulkSeed = rapid.Uint64().Draw(rt, "bulk_seed")
	fault := rapid.IntRange(0, 9).Draw(rt, "fault") // 0..5: fault-free
	sc.DumpIn = genStream("dump_in", fault == 6)
	sc.DumpOut = genStream("dump_out", fault == 7)
	sc.MakeIn = genStream("make_in", fault == 8)
	sc.MakeOut = genStream("make_out", fault == 9)
	return sc
}

func summaryC16(sc C16Scenario) interface{} {
	return map[string]interface{}{"explicit_pairs": len(sc.Pairs), "bulk_pairs": sc.Bulk, "dump_in": sc.DumpIn, "dump_out": sc.DumpOut,
		"make_in": sc.MakeIn, "make_out": sc.MakeOut}
}

func runC16(t *testing.T, sc C16Scenario, keep bool) *core.Result {
	res := &core.Result{}
	keys, vals := sc.pairs()
	dir, err := os.MkdirTemp("", "c16-")
	if err != nil {
		res.HarnessErr = err.Error()
		return res
	}
	defer os.RemoveAll(dir)
	path := filepath.Join(dir, "t.cdb")
	w, err := cdb.NewWriter(path)
	if err != nil {
		res.HarnessErr = err.Error()
		return res
	}
	// half of the runs hand every pair over in the same two buffers, overwritten for the next pair,
	// as a caller streaming records does: the writer may not keep what it was handed
	reuse := len(keys) > 0 && (len(keys)+len(keys[0]))%2 == 0
	var kbuf, vbuf []byte
	for i := range keys {
		k, v := keys[i], vals[i]
		if reuse {
			kbuf = append(kbuf[:0], k...)
			vbuf = append(vbuf[:0], v...)
			k, v = kbuf, vbuf
		}
		if err := w.Put(k, v); err != nil {
			res.HarnessErr = "Put: " + err.Error()
			return res
		}
	}
	if reuse {
		res.Probe("pairs_written_from_reused_buffers")
		for i := range kbuf {
			kbuf[i] = 0xEE
		}
		for i := range vbuf {
			vbuf[i] = 0xEE
		}
	}
	if err := w.Close(); err != nil {
		res.HarnessErr = "Close: " + err.Error()
		return res
	}
	file, err := os.ReadFile(path)
	if err != nil {
		res.HarnessErr = err.Error()
		return res
	}
	res.TraceHash = fmt.Sprintf("%016x", core.SplitMix(uint64(len(file))*31+hashBytes(file)+hashBytes([]byte(fmt.Sprint(sc.DumpIn, sc.DumpOut, sc.MakeIn, sc.MakeOut)))))

	// piggy-backed lookup facet (input generation, labelled as such in the evidence)
	c, err := cdb.Open(path)
	if err != nil {
		res.Add("open-failed", "open-failed", err.Error())
		return res
	}
	expect := map[string][][]byte{}
	var order []string
	for i := range keys {
		k := string(keys[i])
		if _, ok := expect[k]; !ok {
			order = append(order, k)
		}
		expect[k] = append(expect[k], vals[i])
	}
	ctx := cdb.NewContext()
	for _, k := range order {
		c.FindStart(ctx)
		for j, want := range expect[k] {
			got, err := c.FindNext([]byte(k), ctx)
			if err != nil || !bytes.Equal(got, want) {
				res.Add("lookup-wrong", "lookup-wrong", fmt.Sprintf("key %q value #%d: got %q err %v, want %q", trunc(k), j, trunc(string(got)), err, trunc(string(want))))
				break
			}
		}
		if len(res.Violations) == 0 {
			if got, err := c.FindNext([]byte(k), ctx); err != io.EOF {
				res.Add("lookup-wrong", "lookup-wrong|extra-value", fmt.Sprintf("key %q: after its %d values FindNext gives %q, %v instead of EOF", trunc(k), len(expect[k]), trunc(string(got)), err))
			}
		}
		res.Probe("keys_looked_up")
	}
	for _, absent := range [][]byte{[]byte("absent-key"), []byte("k999999;"), {0}, append([]byte("k1;"), 0)} {
		if _, ok := expect[string(absent)]; ok {
			continue
		}
		c.FindStart(ctx)
		if got, err := c.FindNext(absent, ctx); err != io.EOF {
			res.Add("lookup-wrong", "lookup-wrong|absent-key-found", fmt.Sprintf("absent key %q found: %q, %v", absent, trunc(string(got)), err))
		}
	}
	c.Close()

	// stream facet
	faulty := sc.DumpIn.ErrAt >= 0 || sc.DumpOut.ErrAt >= 0 || sc.MakeIn.ErrAt >= 0 || sc.MakeOut.ErrAt >= 0
	res.Population = "fault-free"
	if faulty {
		res.Population = "faults"
	}
	var wantDump bytes.Buffer
	for i := range keys {
		fmt.Fprintf(&wantDump, "+%d,%d:%s->%s\n", len(keys[i]), len(vals[i]), keys[i], vals[i])
	}
	wantDump.WriteString("\n")

	din := &segReader{data: file, st: sc.DumpIn}
	dout := &memWS{errAt: sc.DumpOut.ErrAt}
	derr := cdb.Dump(dout, din)
	if din.fired {
		res.Fault("dump-read-error")
	}
	if dout.fired {
		res.Fault("dump-write-error")
	}
	if len(sc.DumpIn.Sizes) > 0 {
		res.Fault("dump-short-reads")
	}
	handedError := din.fired || dout.fired
	switch {
	case derr != nil && !handedError:
		res.Add("dump-failed", "dump-failed|no-stream-error", fmt.Sprintf("Dump of a %d-byte file failed with %v although no stream error was injected (read sizes %v are legal under io.Reader)", len(file), derr, sc.DumpIn.Sizes))
		return res
	case derr == nil && handedError:
		res.Add("error-swallowed", "error-swallowed|dump", "Dump returned nil although a stream error was handed to it")
		return res
	case derr == nil && !bytes.Equal(dout.buf, wantDump.Bytes()):
		res.Add("dump-wrong", "dump-wrong|nil-error", fmt.Sprintf("Dump returned nil but wrote %d bytes that are not the %d-byte listing of the written pairs (file %d bytes, read sizes %v)", len(dout.buf), wantDump.Len(), len(file), sc.DumpIn.Sizes))
		return res
	case derr != nil:
		return res // may fail, never wrong data
	}
	min := &segReader{data: dout.buf, st: sc.MakeIn}
	mout := &memWS{errAt: sc.MakeOut.ErrAt}
	merr := cdb.Make(mout, min)
	if min.fired {
		res.Fault("make-read-error")
	}
	if mout.fired {
		res.Fault("make-write-error")
	}
	if len(sc.MakeIn.Sizes) > 0 {
		res.Fault("make-short-reads")
	}
	handedError = min.fired || mout.fired
	switch {
	case merr != nil && !handedError:
		res.Add("make-failed", "make-failed|no-stream-error", fmt.Sprintf("Make failed with %v although no stream error was injected (read sizes %v)", merr, sc.MakeIn.Sizes))
	case merr == nil && handedError:
		res.Add("error-swallowed", "error-swallowed|make", "Make returned nil although a stream error was handed to it")
	case merr == nil && !bytes.Equal(mout.buf, file):
		res.Add("roundtrip-mismatch", "roundtrip-mismatch", fmt.Sprintf("Make(Dump(file)) differs from the file: %d vs %d bytes, first difference at %d", len(mout.buf), len(file), firstDiff(mout.buf, file)))
	}
	res.Nontrivial = len(keys) > 0 && (len(sc.DumpIn.Sizes) > 0 || len(sc.MakeIn.Sizes) > 0 || faulty || len(file) > 4096)
	if len(file) > 4096 {
		res.Probe("file_larger_than_one_buffer")
	}
	return res
}

func trunc(s string) string {
	if len(s) > 40 {
		return s[:40] + "..."
	}
	return s
}

func firstDiff(a, b []byte) int {
	for i := 0; i < len(a) && i < len(b); i++ {
		if a[i] != b[i] {
			return i
		}
	}
	if len(a) < len(b) {
		return len(a)
	}
	return len(b)
}

func hashBytes(b []byte) uint64 {
	h := uint64(14695981039346656037)
	for _, c := range b {
		h ^= uint64(c)
		h *= 1099511628211
	}
	return h
}

func TestC16(t *testing.T) {
	core.Explore(t, core.Check[C16Scenario]{Property: "C16", Draw: drawC16, Run: runC16, Summary: summaryC16, Batch: 100})
}
