package checks

import (
	"encoding/json"
	"fmt"
	"math/rand"
	"os"
	"path/filepath"
	"sync"
	"sync/atomic"
	"testing"
	"time"

	"github.com/facebookincubator/dns/dnsrocks/metrics"
	"github.com/facebookincubator/dns/dnsrocks/verifhook"

	"dsim/core"
	"dsim/sched"
)

// ---- C19, free-running tier of the sliding window ---------------------------------------------
//
// The controlled tier drives one AddSample / Get at a time against the cleaner's tick; an AddSample
// that runs *while* the cleaner compacts is finer than its yield points. Here writers add unique
// values continuously on real cores across several cleaner ticks (real clock, 2 s windows, the
// cleaner's real one-second ticker, race detector on) while a reader takes snapshots. Judged is only
// what holds whatever the timing:
//
//	lost sample     a value whose AddSample returned before the snapshot began and whose AddSample
//	                began less than the window length before the snapshot ended is in the snapshot
//	                (its expiry is set inside AddSample, so it cannot have expired)
//	spurious value  every value of a snapshot, and the min / max that Get exports, is a value some
//	                writer had at least begun to add; while live samples exist none of them is zero
//
// Nothing is said about how long an expired sample lingers: that depends on when the cleaner
// goroutine gets to run and belongs to the controlled tier (fake clock).

type c19FreeStats struct {
	Slices            int   `json:"slices"`
	Adds              int64 `json:"samples_added"`
	Snapshots         int64 `json:"snapshots_checked"`
	Required          int64 `json:"presence_checks"`
	AtTick            int64 `json:"snapshots_with_expired_and_live_samples_around"`
	FirstSampleTrials int64 `json:"trials_of_concurrent_first_samples_of_a_key"`

	Violations []string `json:"violations"`
	WallS      float64  `json:"wall_s"`
	Seed       uint64   `json:"seed"`
}

type c19Rec struct {
	v          int64
	start, ret time.Time
}

func freeSliceC19(seed uint64, d time.Duration, fs *c19FreeStats, mu *sync.Mutex) {
	const lifetime = 2 * time.Second
	const writers = 3
	st := metrics.NewStats()
	if err := st.VerifAddWindow("k", lifetime); err != nil {
		mu.Lock()
		fs.Violations = append(fs.Violations, "harness: "+err.Error())
		mu.Unlock()
		return
	}
	defer st.VerifStop()
	var vio []string
	var vmu sync.Mutex
	violate := func(kind, format string, a ...interface{}) {
		vmu.Lock()
		if len(vio) < 4 {
			vio = append(vio, kind+": "+fmt.Sprintf(format, a...))
		}
		vmu.Unlock()
	}
	recs := make([][]c19Rec, writers)
	var done [writers]atomic.Int64    // records published (AddSample returned)
	var started [writers]atomic.Int64 // AddSample calls begun
	for w := range recs {
		recs[w] = make([]c19Rec, 400000)
	}
	stop := make(chan struct{})
	var wg sync.WaitGroup
	for w := 0; w < writers; w++ {
		w := w
		wg.Add(1)
		go func() {
			defer wg.Done()
			r := rand.New(rand.NewSource(int64(seed)*31 + int64(w)))
			for i := 0; i < len(recs[w]); i++ {
				select {
				case <-stop:
					return
				default:
				}
				v := int64(w+1)<<32 | int64(i+1)
				started[w].Store(int64(i + 1))
				t0 := time.Now()
				st.AddSample("k", v)
				recs[w][i] = c19Rec{v: v, start: t0, ret: time.Now()}
				done[w].Store(int64(i + 1))
				switch r.Intn(8) {
				case 0:
					time.Sleep(time.Duration(r.Intn(300)) * time.Microsecond)
				case 1:
					time.Sleep(time.Duration(r.Intn(3)) * time.Millisecond)
				}
			}
		}()
	}
	var snapshots, required, atTick int64
	wg.Add(1)
	go func() {
		defer wg.Done()
		var lo [writers]int64
		decode := func(v int64) (int, int64, bool) {
			w, i := int(v>>32)-1, v&0xffffffff
			return w, i, w >= 0 && w < writers && i >= 1
		}
		for n := 0; ; n++ {
			select {
			case <-stop:
				return
			default:
			}
			var hi [writers]int64
			for w := range hi {
				hi[w] = done[w].Load()
			}
			t0 := time.Now()
			var snap []int64
			var exported map[string]int64
			if n%4 == 3 {
				exported = st.Get()
			} else {
				snap = st.VerifSamples("k")
			}
			t1 := time.Now()
			var begun [writers]int64
			for w := range begun {
				begun[w] = started[w].Load()
			}
			snapshots++
			if exported != nil {
				// min and max are values somebody added; with live samples around they are not zero
				live := false
				for w := range hi {
					if hi[w] > 0 && recs[w][hi[w]-1].ret.Before(t0) && recs[w][hi[w]-1].start.Add(lifetime).After(t1) {
						live = true
					}
				}
				for _, k := range []string{"k.min", "k.max"} {
					v := exported[k]
					if v == 0 && !live {
						continue
					}
					if w, i, ok := decode(v); !ok || i > begun[w] {
						violate("spurious-value", "Get exports %s = %d, which no writer ever added (live samples existed: %v)", k, v, live)
					}
				}
				continue
			}
			in := make(map[int64]struct{}, len(snap))
			for _, v := range snap {
				in[v] = struct{}{}
				if w, i, ok := decode(v); !ok || i > begun[w] {
					violate("spurious-value", "the window reports %d, which no writer ever added", v)
				}
			}
			expiredSeen := false
			for w := range hi {
				for lo[w] < hi[w] && !recs[w][lo[w]].start.Add(lifetime).After(t1) {
					lo[w]++ // may have expired by the end of the snapshot: no longer required
					expiredSeen = true
				}
				for i := lo[w]; i < hi[w]; i++ {
					rc := &recs[w][i]
					if !rc.ret.Before(t0) {
						break
					}
					required++
					if _, ok := in[rc.v]; !ok {
						violate("lost-sample", "sample %d of writer %d, added %v before the snapshot began (window length %v), is not reported; the snapshot holds %d samples",
							i+1, w, t0.Sub(rc.ret).Round(time.Microsecond), lifetime, len(snap))
						break
					}
				}
			}
			if expiredSeen {
				atTick++
			}
			time.Sleep(2 * time.Millisecond)
		}
	}()
	time.Sleep(d)
	close(stop)
	wg.Wait()
	mu.Lock()
	defer mu.Unlock()
	for w := range done {
		fs.Adds += done[w].Load()
	}
	fs.Snapshots += snapshots
	fs.Required += required
	fs.AtTick += atTick
	fs.Violations = append(fs.Violations, vio...)
	fs.Slices++
}

// firstSamplesC19: several goroutines add the very first samples of a key at the same moment (in
// the server: the first queries finishing together). Whatever the interleaving, once all
// AddSample calls have returned every one of the values is reported (the window lives 60 s).
func firstSamplesC19(seed uint64, trials int, fs *c19FreeStats) {
	r := rand.New(rand.NewSource(int64(seed)))
	for tr := 0; tr < trials && len(fs.Violations) < 4; tr++ {
		st := metrics.NewStats()
		g := 2 + r.Intn(4)
		key := fmt.Sprintf("fresh%d", tr%3)
		start := make(chan struct{})
		var wg sync.WaitGroup
		vals := make([]int64, g)
		for i := 0; i < g; i++ {
			vals[i] = int64(1000*(tr+1) + 7*i + 1)
			wg.Add(1)
			go func(v int64) {
				defer wg.Done()
				<-start
				st.AddSample(key, v)
			}(vals[i])
		}
		close(start)
		wg.Wait()
		got := st.VerifSamples(key)
		in := map[int64]bool{}
		for _, v := range got {
			in[v] = true
		}
		var sum int64
		for _, v := range vals {
			sum += v
			if !in[v] {
				fs.Violations = append(fs.Violations, fmt.Sprintf("lost-sample: %d goroutines added the first samples %v of a key concurrently; once all had returned the window reports %v", g, vals, got))
				break
			}
		}
		ex := st.Get()
		if len(fs.Violations) == 0 && (ex[key+".min"] != vals[0] || ex[key+".max"] != vals[g-1] || ex[key+".avg"] != sum/int64(g)) {
			fs.Violations = append(fs.Violations, fmt.Sprintf("export-wrong: first samples %v of a key added concurrently; Get exports min %d max %d avg %d", vals, ex[key+".min"], ex[key+".max"], ex[key+".avg"]))
		}
		st.VerifStop()
		fs.FirstSampleTrials++
	}
}

func TestC19Free(t *testing.T) {
	env := core.GetEnv("C19")
	if os.Getenv("VERIF_RACE_TIER") == "" {
		t.Skip("the free-running tier is run by ./check")
	}
	verifhook.Attach(sched.Perturb{})
	defer verifhook.Attach(nil)
	fs := &c19FreeStats{Seed: env.Seed}
	start := time.Now()
	deadline := start.Add(time.Duration(env.BudgetS * float64(time.Second)))
	var mu sync.Mutex
	for round := 0; round == 0 || time.Now().Before(deadline); round++ {
		var wg sync.WaitGroup
		for k := 0; k < 4; k++ {
			wg.Add(1)
			go func(k int) {
				defer wg.Done()
				freeSliceC19(env.Seed*1000+uint64(round*8+k), 4700*time.Millisecond, fs, &mu)
			}(k)
		}
		wg.Wait()
		firstSamplesC19(env.Seed*77+uint64(round), 3000, fs)
	}
	fs.WallS = time.Since(start).Seconds()
	data, _ := json.MarshalIndent(fs, "", " ")
	_ = os.WriteFile(filepath.Join(env.OutDir, "race.json"), data, 0o644)
	for _, v := range fs.Violations {
		t.Errorf("RACE-TIER-VIOLATION %s", v)
	}
}
