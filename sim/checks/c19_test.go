package checks

import (
	"fmt"
	"testing"
	"time"

	"github.com/miekg/dns"
	"pgregory.net/rapid"

	"github.com/facebookincubator/dns/dnsrocks/metrics"

	"dsim/core"
	"dsim/sched"
)

// ---- C19: exported statistics and the query log tell the truth --------------------------------

// C19WinOp is one step of the sliding-window workload.
type C19WinOp struct {
	Kind    string `json:"kind"` // "add", "sleep", "get"
	Value   int64  `json:"value,omitempty"`
	SleepMs int    `json:"sleep_ms,omitempty"`
}

// C19Scenario is either a sliding-window history or a server history (counters and logger).
type C19Scenario struct {
	Mode       string      `json:"mode"` // "window" or "server"
	LifetimeMs int         `json:"lifetime_ms,omitempty"`
	Ops        []C19WinOp  `json:"ops,omitempty"`
	Srv        SrvScenario `json:"srv,omitempty"`
	Tape       []uint8     `json:"tape"`
	TapeSeed   uint64      `json:"tape_seed"`
	Calm       int         `json:"calm"`
}

func drawC19(rt *rapid.T, tier string) C19Scenario {
	if rapid.IntRange(0, 2).Draw(rt, "mode") == 0 {
		o := srvDrawOpts{backends: []string{"cdb", "cdb", "cdb", "rdb2"}, maxClients: 3, maxQueries: 6, maxOps: 3,
			faults: []string{"missing", "nokey"}, ecs: true, badvers: true}
		sc := drawSrv(rt, o)
		sc.Cache = rapid.Bool().Draw(rt, "cache")
		sc.LRUSize = 64
		return C19Scenario{Mode: "server", Srv: sc}
	}
	sc := C19Scenario{Mode: "window",
		LifetimeMs: rapid.SampledFrom([]int{2000, 2500, 5000, 7300, 30000, 60000, 90000}).Draw(rt, "lifetime"),
		Calm:       rapid.IntRange(0, 2).Draw(rt, "calm"),
		TapeSeed:   rapid.Uint64().Draw(rt, "tape_seed"),
	}
	life := sc.LifetimeMs
	sc.Ops = rapid.SliceOfN(rapid.Custom(func(rt *rapid.T) C19WinOp {
		switch rapid.IntRange(0, 3).Draw(rt, "kind") {
		case 0, 1:
			v := int64(rapid.IntRange(1, 1000).Draw(rt, "value")) // never zero
			if rapid.Bool().Draw(rt, "neg") {
				v = -v
			}
			return C19WinOp{Kind: "add", Value: v}
		case 2:
			base := rapid.SampledFrom([]int{100, 400, 999, 1000, 1001, 1700, 2300}).Draw(rt, "sleep")
			if rapid.IntRange(0, 3).Draw(rt, "rel") == 0 {
				base = life + rapid.SampledFrom([]int{-1500, -500, -1, 1, 500, 1500}).Draw(rt, "eps")
				if base < 1 {
					base = 1
				}
			}
			return C19WinOp{Kind: "sleep", SleepMs: base}
		}
		return C19WinOp{Kind: "get"}
	}), 1, 24).Draw(rt, "ops")
	sc.Tape = rapid.SliceOfN(rapid.Uint8(), 0, 64).Draw(rt, "tape")
	return sc
}

func summaryC19(sc C19Scenario) interface{} {
	if sc.Mode == "server" {
		return map[string]interface{}{"mode": "server", "srv": summarySrv(sc.Srv)}
	}
	var ops []string
	for _, o := range sc.Ops {
		switch o.Kind {
		case "add":
			ops = append(ops, fmt.Sprintf("add(%d)", o.Value))
		case "sleep":
			ops = append(ops, fmt.Sprintf("sleep(%dms)", o.SleepMs))
		default:
			ops = append(ops, "get")
		}
	}
	return map[string]interface{}{"mode": "window", "lifetime_ms": sc.LifetimeMs, "ops": ops}
}

type winSample struct {
	v       int64
	expires time.Time
}

func runC19Window(t *testing.T, sc C19Scenario, keep bool) *core.Result {
	res := &core.Result{Population: "window"}
	opt := sched.Options{Tape: sc.Tape, TapeSeed: sc.TapeSeed, Calm: sc.Calm, KeepSchedule: keep, MaxSteps: 100000, Stall: 6 * time.Hour}
	sched.Bubble(t, opt, func(s *sched.Sim) {
		st := metrics.NewStats()
		life := time.Duration(sc.LifetimeMs) * time.Millisecond
		if err := st.VerifAddWindow("w", life); err != nil {
			res.HarnessErr = err.Error()
			return
		}
		var added []winSample
		// judge compares the exported triple with the reference window L ⊆ M ⊆ U
		judge := func(when string) {
			now := time.Now()
			got := st.Get()
			gmin, gmax, gavg := got["w.min"], got["w.max"], got["w.avg"]
			// U: a sample must be gone once a cleaner pass ran after its expiry
			lastPass, havePass := s.LastRelease["swindow.tick"]
			firstU, firstL := len(added), len(added)
			for i, a := range added {
				if firstU == len(added) && (!havePass || !a.expires.Before(lastPass)) {
					firstU = i
				}
				if firstL == len(added) && !a.expires.Before(now) {
					firstL = i
					break
				}
			}
			if firstU > firstL {
				firstU = firstL
			}
			if firstL < len(added) {
				res.Probe("get_with_live_samples")
			}
			if firstU < firstL {
				res.Probe("get_with_lingering_expired_samples")
			}
			ok := false
			for i := firstU; i <= firstL && !ok; i++ {
				m := added[i:]
				if len(m) == 0 {
					ok = gmin == 0 && gmax == 0 && gavg == 0
					continue
				}
				mn, mx, sum := m[0].v, m[0].v, int64(0)
				for _, x := range m {
					if x.v < mn {
						mn = x.v
					}
					if x.v > mx {
						mx = x.v
					}
					sum += x.v
				}
				ok = gmin == mn && gmax == mx && gavg == sum/int64(len(m))
			}
			if !ok {
				var live []int64
				for _, a := range added[firstL:] {
					live = append(live, a.v)
				}
				kind := "window-wrong"
				sig := "window-wrong"
				if len(live) > 0 && gmin == 0 && gmax == 0 {
					sig = "window-wrong|live-samples-dropped"
				} else if len(live) > 0 {
					sig = "window-wrong|live-samples-misreported"
				} else {
					sig = "window-wrong|expired-samples-reported"
				}
				res.Add(kind, sig, fmt.Sprintf("%s at t=%v: exported min/max/avg = %d/%d/%d; samples still alive (lifetime %v): %v; %d expired sample(s) may linger until the next cleaner pass",
					when, s.Now(), gmin, gmax, gavg, life, live, firstL-firstU))
			}
		}
		s.Go("driver", false, func() {
			for _, o := range sc.Ops {
				switch o.Kind {
				case "add":
					s.Y("driver.add")
					st.AddSample("w", o.Value)
					added = append(added, winSample{o.Value, time.Now().Add(life)})
					res.Probe("add")
				case "sleep":
					s.Sleep(time.Duration(o.SleepMs) * time.Millisecond)
				case "get":
					s.Y("driver.get")
					judge("Get")
				}
			}
			// bounded liveness: once nothing is added any more, every sample is gone after its
			// lifetime plus a few cleaner periods
			s.Sleep(life + 5500*time.Millisecond)
			judge("final Get")
			got := st.Get()
			if got["w.min"] != 0 || got["w.max"] != 0 || got["w.avg"] != 0 {
				res.Add("window-not-emptied", "window-not-emptied", fmt.Sprintf("samples still exported %v after lifetime + 5.5 s without additions", got))
			}
		})
		err := s.Run()
		res.FromSim(s)
		if err != nil {
			res.HarnessErr = err.Error()
		}
		for _, p := range s.Panics() {
			res.Add("panic", "panic", p)
		}
		if n := s.PointCover["swindow.tick"]; n > 0 {
			for i := 0; i < n; i++ {
				res.Probe("cleaner_passes")
			}
		}
		res.Nontrivial = res.Probes["get_with_live_samples"] > 0
		st.VerifStop()
	})
	return res
}

// expectedCounters derives, from the message actually written, the outcome counters the query
// must have incremented.
func judgeC19Query(sc *SrvScenario, q *QRec, res *core.Result) {
	c := q.Counters
	where := fmt.Sprintf("client %d query %d (%s)", q.Client, q.Idx, describeQ(q))
	bad := func(what string, a ...interface{}) {
		res.Add("counter-wrong", "counter-wrong|"+what, where+": "+what+" "+fmt.Sprint(a...))
	}
	if c["DNS_queries"] != 1 {
		bad("DNS_queries", c["DNS_queries"])
	}
	if c["sample:DNS.responsetime_us"] != 1 {
		bad("responsetime-samples", c["sample:DNS.responsetime_us"])
	}
	typeName, named := dns.TypeToString[q.Req.Question[0].Qtype]
	typeKey := "DNS_query." + typeName
	var typeTotal int64
	for k, v := range c {
		if len(k) > len("DNS_query.") && k[:len("DNS_query.")] == "DNS_query." {
			typeTotal += v
			if !named && v == 1 {
				typeKey = k // a type without a mnemonic: whatever name the server gives its counter, it is one counter, once
			}
		}
	}
	if c[typeKey] != 1 || typeTotal != 1 {
		bad("type-counter", typeKey, c[typeKey], "total", typeTotal)
	}
	if q.Resp == nil {
		if len(q.Logged) != 0 {
			bad("logged-without-response", len(q.Logged))
		}
		return
	}
	b2i := func(b bool) int64 {
		if b {
			return 1
		}
		return 0
	}
	m := q.Resp
	want := map[string]int64{
		"DNS_queries_notauthoritative": b2i(!m.Authoritative),
		"DNS_queries_nxdomain":         b2i(m.Rcode == dns.RcodeNameError),
		"DNS_queries_refused":          b2i(m.Rcode == dns.RcodeRefused),
		"DNS_queries_badvers":          b2i(m.Rcode == dns.RcodeBadVers),
		"DNS_queries_nodata":           b2i(m.Rcode == dns.RcodeSuccess && len(m.Answer) == 0),
	}
	for k, v := range want {
		if c[k] != v {
			bad(k, "is", c[k], "but the response sent dictates", v)
		}
	}
	if m.Rcode != dns.RcodeBadVers {
		loc := c["DNS_location.ecs"] + c["DNS_location.empty"] + c["DNS_location.default"] + c["DNS_location.fallback_default"] + c["DNS_location.resolver"]
		if loc != 1 {
			bad("location-class", loc)
		}
		if sc.Cache {
			if n := c["DNS_cache.hit"] + c["DNS_cache.missed"] + c["DNS_cache.expired"]; n != 1 {
				bad("cache-outcome", n)
			}
		}
	}
	if len(q.Logged) != 1 {
		bad("logger-calls", len(q.Logged))
	} else if d := diffResponses(q.Logged[0], m, false, false); d != "" {
		bad("logged-message-differs", d)
	}
	if q.LogFailed != 0 {
		bad("logfailed-for-composed-response", q.LogFailed)
	}
}

func runC19Server(t *testing.T, sc C19Scenario, keep bool) *core.Result {
	res := &core.Result{Population: "server"}
	srv := sc.Srv
	hooks := &srvHooks{}
	h := runSrv(t, &srv, keep, res, hooks)
	if res.HarnessErr != "" || h.Sim == nil {
		return res
	}
	// drop what other properties own (reload visibility): only counters and logger are judged here
	res.Violations = nil
	for _, p := range h.Sim.Panics() {
		res.Add("panic", "panic", p)
	}
	total := int64(0)
	for _, q := range h.Queries {
		if q.Ret == 0 {
			continue
		}
		judgeC19Query(&srv, q, res)
		total++
		res.Probe("class_rcode_" + dns.RcodeToString[q.Rcode])
	}
	// counters equal the sum of their increments
	if got := hooks.stats.get("DNS_queries"); got != total {
		res.Add("counter-wrong", "counter-wrong|DNS_queries-total", fmt.Sprintf("DNS_queries = %d after %d queries", got, total))
	}
	res.Nontrivial = total > 0 && res.Switches > 0
	return res
}

func runC19(t *testing.T, sc C19Scenario, keep bool) *core.Result {
	if sc.Mode == "server" {
		return runC19Server(t, sc, keep)
	}
	return runC19Window(t, sc, keep)
}

func TestC19(t *testing.T) {
	core.Explore(t, core.Check[C19Scenario]{Property: "C19", Draw: drawC19, Run: runC19, Summary: summaryC19, Batch: 60})
}
