package checks

import (
	"context"
	"encoding/json"
	"fmt"
	"math/rand"
	"net"
	"os"
	"path/filepath"
	"strings"
	"sync"
	"sync/atomic"
	"testing"
	"time"

	"github.com/miekg/dns"

	"github.com/facebookincubator/dns/dnsrocks/dnsserver"
	"github.com/facebookincubator/dns/dnsrocks/dnsserver/stats"
	"github.com/facebookincubator/dns/dnsrocks/fbserver"
	"github.com/facebookincubator/dns/dnsrocks/verifhook"

	"dsim/core"
	"dsim/gen"
	"dsim/sched"
)

// ---- C20, free-running tier ---------------------------------------------------------------------
//
// Under the controlled scheduler a front handler without yield points (ANY refusal, whoami, the
// mux) runs from the read of a query to the write of its answer in one piece, so two queries are
// never inside the handler chain at once. Here the real server listens on real loopback sockets
// (two listener addresses with different max-answer settings, UDP and TCP) and eight clients send
// queries at once, race detector on. What is judged does not depend on timing: every answer that
// arrives equals what the bare handler gives for that query (ANY: exactly one RFC 8482 HINFO
// record owned by the queried name), and there is no race report. A query that gets no answer in
// time is counted, not judged.

type c20FreeStats struct {
	Queries    int64    `json:"queries_answered"`
	Timeouts   int64    `json:"queries_without_an_answer_in_time"`
	ANY        int64    `json:"any_queries_refused"`
	Skipped    string   `json:"skipped,omitempty"`
	Violations []string `json:"violations"`
	WallS      float64  `json:"wall_s"`
	Seed       uint64   `json:"seed"`
}

func TestC20Free(t *testing.T) {
	env := core.GetEnv("C20")
	if os.Getenv("VERIF_RACE_TIER") == "" {
		t.Skip("the free-running tier is run by ./check")
	}
	verifhook.Attach(sched.Perturb{})
	defer verifhook.Attach(nil)
	fs := &c20FreeStats{Seed: env.Seed}
	start := time.Now()
	path := gen.TheFarm().CDB(1, false)
	ref, err := dnsserver.NewFBDNSDBBasic(dnsserver.HandlerConfig{}, dnsserver.DBConfig{Path: path, Driver: "cdb"}, dnsserver.CacheConfig{}, &dnsserver.DummyLogger{}, &stats.DummyStats{})
	if err == nil {
		err = ref.Load()
	}
	if err != nil {
		t.Fatal(err)
	}
	defer ref.Close()

	hosts := []string{"127.0.0.1", "127.0.0.2"}
	maxAns := []int{1, 3}
	// a sandbox without a usable loopback interface: nothing to judge, and nothing to report either
	for _, h := range hosts {
		pc, err := net.ListenPacket("udp", net.JoinHostPort(h, "0"))
		if err == nil {
			_ = pc.Close()
			var l net.Listener
			if l, err = net.Listen("tcp", net.JoinHostPort(h, "0")); err == nil {
				_ = l.Close()
			}
		}
		if err != nil {
			fs.Skipped = "loopback address " + h + " cannot be bound: " + err.Error()
			data, _ := json.MarshalIndent(fs, "", " ")
			_ = os.WriteFile(filepath.Join(env.OutDir, "race.json"), data, 0o644)
			return
		}
	}
	var amu sync.Mutex
	udpAddr, tcpAddr := map[string]string{}, map[string]string{}
	fbserver.VerifSetListen(
		func(addr string) (net.PacketConn, error) {
			h, _, _ := net.SplitHostPort(addr)
			pc, err := net.ListenPacket("udp", net.JoinHostPort(h, "0"))
			if err == nil {
				amu.Lock()
				udpAddr[h] = pc.LocalAddr().String()
				amu.Unlock()
			}
			return pc, err
		},
		func(addr string) (net.Listener, error) {
			h, _, _ := net.SplitHostPort(addr)
			l, err := net.Listen("tcp", net.JoinHostPort(h, "0"))
			if err == nil {
				amu.Lock()
				tcpAddr[h] = l.Addr().String()
				amu.Unlock()
			}
			return l, err
		})
	defer fbserver.VerifSetListen(nil, nil)
	conf := fbserver.NewServerConfig()
	for i, h := range hosts {
		conf.IPAns[h] = maxAns[i]
	}
	conf.Port = 53
	conf.TCP = true
	conf.ReadTimeout = 2 * time.Second
	conf.TCPIdleTimeout = 2 * time.Second
	conf.DBConfig = dnsserver.DBConfig{Path: path, Driver: "cdb", ReloadTimeout: time.Second}
	conf.RefuseANY = true
	conf.WhoamiDomain = strings.TrimSuffix(c20Whoami, ".")
	srv := fbserver.NewServer(conf, &dnsserver.DummyLogger{}, &stats.DummyStats{}, nullExporter{})
	if err := srv.Start(); err != nil {
		t.Fatalf("Start on loopback: %v", err)
	}
	defer srv.Shutdown()
	time.Sleep(100 * time.Millisecond)

	var vmu sync.Mutex
	violate := func(format string, a ...interface{}) {
		vmu.Lock()
		if len(fs.Violations) < 6 {
			fs.Violations = append(fs.Violations, fmt.Sprintf(format, a...))
		}
		vmu.Unlock()
	}
	anyNames := []string{"example.com.", "www.example.com.", "txt.example.com.", "mx.example.com.", c20Whoami, "outside.org."}
	deadline := start.Add(time.Duration(env.BudgetS * float64(time.Second)))
	var wg sync.WaitGroup
	for w := 0; w < 8; w++ {
		w := w
		wg.Add(1)
		go func() {
			defer wg.Done()
			r := rand.New(rand.NewSource(int64(env.Seed)*131 + int64(w)))
			for n := 0; time.Now().Before(deadline); n++ {
				li := r.Intn(len(hosts))
				tcp := r.Intn(3) == 0
				var req *dns.Msg
				isAny := r.Intn(3) == 0
				qi := -100
				if isAny {
					req = new(dns.Msg)
					req.SetQuestion(anyNames[(w+n)%len(anyNames)], dns.TypeANY)
				} else {
					qi = r.Intn(len(gen.Queries))
					if gen.Queries[qi].Type == dns.TypeANY {
						isAny = true
					}
					req = gen.MakeQuery(qi, false, "", 0)
				}
				req.Id = uint16(r.Intn(65536))
				if r.Intn(2) == 0 {
					req.SetEdns0(4096, false)
				}
				amu.Lock()
				addr, network := udpAddr[hosts[li]], "udp"
				if tcp {
					addr, network = tcpAddr[hosts[li]], "tcp"
				}
				amu.Unlock()
				c := &dns.Client{Net: network, Timeout: 2 * time.Second, UDPSize: 65000}
				m, _, err := c.Exchange(req.Copy(), addr)
				if err != nil || m == nil {
					atomic.AddInt64(&fs.Timeouts, 1)
					continue
				}
				atomic.AddInt64(&fs.Queries, 1)
				if m.Id != req.Id {
					violate("wrong-id: response id %d for query id %d", m.Id, req.Id)
					continue
				}
				if isAny {
					atomic.AddInt64(&fs.ANY, 1)
					ok := len(m.Answer) == 1 && len(m.Ns) == 0
					if ok {
						h, isH := m.Answer[0].(*dns.HINFO)
						ok = isH && strings.EqualFold(h.Hdr.Name, req.Question[0].Name) && strings.Contains(h.Cpu, "8482")
					}
					if !ok {
						violate("any-not-refused: ANY %s got %v, expected exactly one RFC 8482 HINFO record owned by the queried name", req.Question[0].Name, m.Answer)
					}
					continue
				}
				if strings.EqualFold(req.Question[0].Name, c20Whoami) {
					continue
				}
				var wr *recWriter
				if tcp {
					wr = newRecWriterTCP("127.0.0.1:40000", addr)
				} else {
					wr = newRecWriterUDP("127.0.0.1:40000", addr)
				}
				_, _ = ref.ServeDNS(dnsserver.WithMaxAnswer(context.Background(), maxAns[li]), wr, req.Copy())
				if len(wr.msgs) == 0 {
					violate("transport-differs: the bare handler writes nothing for %v but the server answered", req.Question)
					continue
				}
				raw, perr := wr.msgs[0].Pack()
				want := new(dns.Msg)
				if perr != nil || want.Unpack(raw) != nil {
					continue
				}
				if want.Truncated != m.Truncated {
					continue // sizes on a real socket: the truncation rules are the controlled tier's business
				}
				if d := diffResponses(m, want, gen.Weighted(qi), gen.WeightedExtra(qi)); d != "" {
					violate("transport-differs: %s over %s on listener %s differs from the bare handler (max answer %d): %s", req.Question[0].Name, network, hosts[li], maxAns[li], d)
				}
			}
		}()
	}
	wg.Wait()
	fs.WallS = time.Since(start).Seconds()
	data, _ := json.MarshalIndent(fs, "", " ")
	_ = os.WriteFile(filepath.Join(env.OutDir, "race.json"), data, 0o644)
	for _, v := range fs.Violations {
		t.Errorf("RACE-TIER-VIOLATION %s", v)
	}
	if fs.Queries == 0 {
		t.Logf("no query was answered on loopback (%d timeouts): the tier judged nothing", fs.Timeouts)
	}
}
