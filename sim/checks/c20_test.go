package checks

import (
	"context"
	"encoding/binary"
	"errors"
	"fmt"
	"io"
	"net"
	"strings"
	"testing"
	"time"

	"github.com/miekg/dns"
	"pgregory.net/rapid"

	"github.com/facebookincubator/dns/dnsrocks/dnsserver"
	"github.com/facebookincubator/dns/dnsrocks/dnsserver/stats"
	"github.com/facebookincubator/dns/dnsrocks/fbserver"
	"github.com/facebookincubator/dns/dnsrocks/metrics"

	"dsim/core"
	"dsim/gen"
	"dsim/sched"
	"dsim/simnet"
)

// ---- C20: transport and plugin chain do not alter answers --------------------------------------

const c20Whoami = "whoami.example.com."

// C20Query is one query of a client. Special shapes have Q < 0.
type C20Query struct {
	Q        int  `json:"q"` // >= 0: gen.Queries; -1: message without a question; -2: whoami (lower case); -3: whoami (mixed case); -4 / -5: ANY for the whoami name (lower / mixed case)
	TCP      bool `json:"tcp,omitempty"`
	EDNS     int  `json:"edns,omitempty"` // advertised UDP size (0 = no EDNS)
	Listener int  `json:"listener"`
	SleepMs  int  `json:"sleep_ms,omitempty"`
	NewConn  bool `json:"new_conn,omitempty"` // TCP: open a new connection for this query
}

// C20Scenario is one run of the whole server.
type C20Scenario struct {
	Whoami     bool   `json:"whoami"`
	RefuseANY  bool   `json:"refuse_any"`
	MaxAns     []int  `json:"max_ans"` // per listener IP
	ReadMs     int    `json:"read_timeout_ms"`
	IdleMs     int    `json:"idle_timeout_ms"`
	DropPM     int    `json:"drop_pm"`
	DupPM      int    `json:"dup_pm"`
	JitterMs   int    `json:"jitter_ms"`
	Segments   []int  `json:"tcp_segments,omitempty"`
	SegDelayMs int    `json:"tcp_seg_delay_ms,omitempty"`
	NetSeed    uint64 `json:"net_seed"`
	// AcceptErrMs: after each of these pauses the Accept of a TCP listener fails once with a temporary
	// error (EMFILE-like); the server must keep accepting
	AcceptErrMs []int        `json:"accept_err_ms,omitempty"`
	Clients     [][]C20Query `json:"clients"`
	Tape        []uint8      `json:"tape"`
	TapeSeed    uint64       `json:"tape_seed"`
	Calm        int          `json:"calm"`
}

var c20Listeners = []string{"10.9.0.1", "10.9.0.2"}

func drawC20(rt *rapid.T, tier string) C20Scenario {
	nl := rapid.IntRange(1, 2).Draw(rt, "listeners")
	q := rapid.Custom(func(rt *rapid.T) C20Query {
		x := C20Query{
			Q:        rapid.IntRange(0, len(gen.Queries)-1).Draw(rt, "q"),
			TCP:      rapid.IntRange(0, 2).Draw(rt, "tcp") == 0,
			EDNS:     rapid.SampledFrom([]int{0, 0, 512, 1232, 4096}).Draw(rt, "edns"),
			Listener: rapid.IntRange(0, nl-1).Draw(rt, "listener"),
			SleepMs:  rapid.SampledFrom([]int{0, 0, 3, 40, 900}).Draw(rt, "sleep"),
			NewConn:  rapid.IntRange(0, 2).Draw(rt, "new_conn") == 0,
		}
		switch rapid.IntRange(0, 11).Draw(rt, "special") {
		case 0:
			x.Q = -1
		case 1:
			x.Q = -2
		case 2:
			x.Q = -3
		case 6:
			x.Q = -4 - rapid.IntRange(0, 1).Draw(rt, "any_whoami_case")
		case 3, 4:
			x.Q = gen.BigQuery
		case 5:
			x.Q = 14 // ANY
		}
		return x
	})
	sc := C20Scenario{
		Whoami:    rapid.Bool().Draw(rt, "whoami"),
		RefuseANY: rapid.Bool().Draw(rt, "refuse_any"),
		MaxAns:    rapid.SliceOfN(rapid.IntRange(1, 4), nl, nl).Draw(rt, "max_ans"),
		ReadMs:    rapid.SampledFrom([]int{0, 200, 2000}).Draw(rt, "read_ms"),
		IdleMs:    rapid.SampledFrom([]int{0, 500, 8000}).Draw(rt, "idle_ms"),
		JitterMs:  rapid.SampledFrom([]int{0, 1, 30}).Draw(rt, "jitter_ms"),
		NetSeed:   rapid.Uint64().Draw(rt, "net_seed"),
		Clients:   rapid.SliceOfN(rapid.SliceOfN(q, 1, 6), 1, 5).Draw(rt, "clients"),
		Calm:      rapid.IntRange(0, 2).Draw(rt, "calm"),
		TapeSeed:  rapid.Uint64().Draw(rt, "tape_seed"),
	}
	if rapid.IntRange(0, 1).Draw(rt, "lossy") == 0 {
		sc.DropPM = rapid.SampledFrom([]int{50, 200, 500}).Draw(rt, "drop_pm")
		sc.DupPM = rapid.SampledFrom([]int{0, 100, 400}).Draw(rt, "dup_pm")
	}
	if rapid.IntRange(0, 1).Draw(rt, "segmented") == 0 {
		sc.Segments = rapid.SliceOfN(rapid.SampledFrom([]int{1, 2, 3, 5, 100}), 1, 3).Draw(rt, "segments")
		sc.SegDelayMs = rapid.SampledFrom([]int{0, 1, 50, 300}).Draw(rt, "seg_delay_ms")
	}
	if rapid.IntRange(0, 3).Draw(rt, "accept_errs") == 0 {
		sc.AcceptErrMs = rapid.SliceOfN(rapid.SampledFrom([]int{0, 1, 7, 45, 400}), 1, 3).Draw(rt, "accept_err_ms")
	}
	sc.Tape = rapid.SliceOfN(rapid.Uint8(), 0, 128).Draw(rt, "tape")
	return sc
}

func summaryC20(sc C20Scenario) interface{} {
	var cl []string
	for _, qs := range sc.Clients {
		var s []string
		for _, q := range qs {
			name := "?"
			switch {
			case q.Q == -1:
				name = "<no question>"
			case q.Q == -2:
				name = "whoami"
			case q.Q == -3:
				name = "WhoAmI"
			case q.Q == -4:
				name = "whoami/ANY"
			case q.Q == -5:
				name = "WhoAmI/ANY"
			default:
				qq := gen.Queries[q.Q%len(gen.Queries)]
				name = qq.Name + "/" + dns.TypeToString[qq.Type]
			}
			proto := "udp"
			if q.TCP {
				proto = "tcp"
			}
			s = append(s, fmt.Sprintf("%s %s edns=%d ->L%d", proto, name, q.EDNS, q.Listener))
		}
		cl = append(cl, strings.Join(s, "; "))
	}
	return map[string]interface{}{"whoami": sc.Whoami, "refuse_any": sc.RefuseANY, "max_ans": sc.MaxAns, "drop_pm": sc.DropPM, "dup_pm": sc.DupPM,
		"jitter_ms": sc.JitterMs, "tcp_segments": sc.Segments, "seg_delay_ms": sc.SegDelayMs, "clients": cl}
}

type nullExporter struct{}

func (nullExporter) ConsumeStats(string, *metrics.Stats) error { return nil }

func c20Request(q C20Query, id uint16) *dns.Msg {
	var m *dns.Msg
	switch q.Q {
	case -1:
		m = new(dns.Msg)
		m.Id = id
		m.RecursionDesired = true
		return m
	case -2:
		m = new(dns.Msg)
		m.SetQuestion(c20Whoami, dns.TypeTXT)
	case -3:
		m = new(dns.Msg)
		m.SetQuestion("WhoAmI.Example.COM.", dns.TypeTXT)
	case -4:
		m = new(dns.Msg)
		m.SetQuestion(c20Whoami, dns.TypeANY)
	case -5:
		m = new(dns.Msg)
		m.SetQuestion("WhoAmI.Example.COM.", dns.TypeANY)
	default:
		m = gen.MakeQuery(q.Q, false, "", id)
	}
	m.Id = id
	if q.EDNS > 0 {
		m.SetEdns0(uint16(q.EDNS), false)
	}
	return m
}

type c20Reply struct {
	msgs []*dns.Msg
	raw  [][]byte
}

func runC20(t *testing.T, sc C20Scenario, keep bool) *core.Result {
	res := &core.Result{Population: "fault-free"}
	if sc.DropPM > 0 || sc.DupPM > 0 || len(sc.Segments) > 0 {
		res.Population = "faults"
	}
	path := gen.TheFarm().CDB(1, false)
	ref, err := dnsserver.NewFBDNSDBBasic(dnsserver.HandlerConfig{}, dnsserver.DBConfig{Path: path, Driver: "cdb"}, dnsserver.CacheConfig{}, &dnsserver.DummyLogger{}, &stats.DummyStats{})
	if err == nil {
		err = ref.Load()
	}
	if err != nil {
		res.HarnessErr = err.Error()
		return res
	}
	defer ref.Close()

	opt := sched.Options{Tape: sc.Tape, TapeSeed: sc.TapeSeed, Calm: sc.Calm, KeepSchedule: keep, MaxSteps: 200000}
	sched.Bubble(t, opt, func(s *sched.Sim) {
		nw := simnet.New(s, simnet.Config{Seed: sc.NetSeed, DropPM: sc.DropPM, DupPM: sc.DupPM, MinLatency: 200 * time.Microsecond,
			Jitter: time.Duration(sc.JitterMs) * time.Millisecond, Segments: sc.Segments, SegDelay: time.Duration(sc.SegDelayMs) * time.Millisecond})
		fbserver.VerifSetListen(
			func(addr string) (net.PacketConn, error) { return nw.ListenUDP(addr) },
			func(addr string) (net.Listener, error) { return nw.ListenTCP(addr) })
		defer fbserver.VerifSetListen(nil, nil)
		conf := fbserver.NewServerConfig()
		for i, m := range sc.MaxAns {
			conf.IPAns[c20Listeners[i]] = m
		}
		conf.Port = 53
		conf.TCP = true
		conf.ReadTimeout = time.Duration(sc.ReadMs) * time.Millisecond
		conf.TCPIdleTimeout = time.Duration(sc.IdleMs) * time.Millisecond
		conf.DBConfig = dnsserver.DBConfig{Path: path, Driver: "cdb", ReloadTimeout: time.Second}
		conf.RefuseANY = sc.RefuseANY
		if sc.Whoami {
			conf.WhoamiDomain = strings.TrimSuffix(c20Whoami, ".")
		}
		srv := fbserver.NewServer(conf, &dnsserver.DummyLogger{}, &stats.DummyStats{}, nullExporter{})
		if err := srv.Start(); err != nil {
			res.HarnessErr = "Start: " + err.Error()
			return
		}

		// judge compares what arrived with what the bare handler says
		judge := func(where string, q C20Query, req *dns.Msg, rep *c20Reply, client string) {
			for i, m := range rep.msgs {
				for j := 0; j < i; j++ {
					if d := diffResponses(m, rep.msgs[j], q.Q >= 0 && gen.Weighted(q.Q), q.Q >= 0 && gen.WeightedExtra(q.Q)); d != "" {
						res.Add("inconsistent-duplicates", "inconsistent-duplicates", fmt.Sprintf("%s: two responses to the same (duplicated) query differ: %s", where, d))
						return
					}
				}
			}
			m := rep.msgs[0]
			raw := rep.raw[0]
			if m.Id != req.Id {
				res.Add("wrong-id", "wrong-id", fmt.Sprintf("%s: response id %d for query id %d", where, m.Id, req.Id))
				return
			}
			limit := 512
			if q.EDNS > limit {
				limit = q.EDNS
			}
			if !q.TCP && len(raw) > limit {
				res.Add("udp-oversize", "udp-oversize", fmt.Sprintf("%s: UDP response of %d bytes for an advertised size of %d", where, len(raw), limit))
				return
			}
			if q.TCP && m.Truncated {
				res.Add("tcp-truncated", "tcp-truncated", where+": response over TCP has TC set")
				return
			}
			switch {
			case q.Q == -1:
				if m.Rcode == dns.RcodeSuccess {
					res.Add("no-question-accepted", "no-question-accepted", where+": a message without a question got NOERROR")
				}
				res.Probe("no_question_message")
				return
			case q.Q == -2 || q.Q == -3:
				if sc.Whoami {
					if m.Rcode != dns.RcodeSuccess || len(m.Answer) < 3 || !strings.HasPrefix(m.Answer[0].(*dns.TXT).Txt[0], "cluster ") {
						res.Add("whoami-wrong", "whoami-wrong|case="+fmt.Sprint(q.Q), fmt.Sprintf("%s: whoami name not answered by the whoami handler: rcode %d, %d answers", where, m.Rcode, len(m.Answer)))
					}
					res.Probe("whoami_answered")
					return
				}
			case (q.Q == -4 || q.Q == -5) && !sc.RefuseANY && sc.Whoami:
				// ANY for the whoami name with refusal off: the whoami handler answers (no TXT asked: empty answer)
				if m.Rcode != dns.RcodeSuccess || !m.Authoritative {
					res.Add("whoami-wrong", "whoami-wrong|any", fmt.Sprintf("%s: ANY for the whoami name not answered by the whoami handler: rcode %d", where, m.Rcode))
				}
				return
			case ((q.Q == -4 || q.Q == -5) || q.Q >= 0 && gen.Queries[q.Q%len(gen.Queries)].Type == dns.TypeANY) && sc.RefuseANY:
				ok := len(m.Answer) == 1 && len(m.Ns) == 0
				if ok {
					h, isH := m.Answer[0].(*dns.HINFO)
					ok = isH && h.Cpu == "RFC 8482"
				}
				for _, rr := range m.Extra {
					if rr.Header().Rrtype != dns.TypeOPT {
						ok = false
					}
				}
				if !ok {
					res.Add("any-not-refused", "any-not-refused", fmt.Sprintf("%s: ANY with refusal enabled answered with %d/%d/%d records: %v", where, len(m.Answer), len(m.Ns), len(m.Extra), m.Answer))
				}
				res.Probe("any_refused")
				return
			}
			// everything else: exactly what the bare database handler gives for that message, that
			// client, that protocol and that listener's max-answer setting
			local := net.JoinHostPort(c20Listeners[q.Listener], "53")
			var w *recWriter
			if q.TCP {
				w = newRecWriterTCP(client, local)
			} else {
				w = newRecWriterUDP(client, local)
			}
			_, _ = ref.ServeDNS(dnsserver.WithMaxAnswer(context.Background(), sc.MaxAns[q.Listener]), w, req.Copy())
			if len(w.msgs) == 0 {
				res.Add("transport-differs", "transport-differs|ref-silent", where+": the bare handler writes nothing but the server answered")
				return
			}
			// what the bare handler wrote goes through the same wire round trip
			wantRaw, perr := w.msgs[0].Pack()
			want := new(dns.Msg)
			if perr != nil || want.Unpack(wantRaw) != nil {
				res.HarnessErr = fmt.Sprintf("%s: cannot pack the reference response: %v", where, perr)
				return
			}
			if d := diffResponses(m, want, q.Q >= 0 && gen.Weighted(q.Q), q.Q >= 0 && gen.WeightedExtra(q.Q)); d != "" {
				proto := "udp"
				if q.TCP {
					proto = "tcp"
				}
				what := strings.Fields(d)[0]
				res.Add("transport-differs", fmt.Sprintf("transport-differs|%s|%s", proto, what), fmt.Sprintf("%s: differs from the bare handler (max answer %d): %s", where, sc.MaxAns[q.Listener], d))
			}
			if m.Truncated {
				res.Probe("udp_truncated")
			}
			if q.TCP && q.Q == gen.BigQuery {
				res.Probe("big_answer_over_tcp")
			}
		}

		type pending struct {
			q   C20Query
			req *dns.Msg
		}
		unanswered := make([][]pending, len(sc.Clients))
		finalPhase := false
		done := 0

		exchangeUDP := func(pc *simnet.PacketConn, dst net.Addr, req *dns.Msg, wait time.Duration) *c20Reply {
			raw, err := req.Pack()
			if err != nil {
				return nil
			}
			_, _ = pc.WriteTo(raw, dst)
			rep := &c20Reply{}
			deadline := time.Now().Add(wait)
			buf := make([]byte, 65536)
			for {
				_ = pc.SetReadDeadline(deadline)
				n, _, err := pc.ReadFrom(buf)
				if err != nil {
					break
				}
				m := new(dns.Msg)
				if m.Unpack(buf[:n]) != nil || m.Id != req.Id {
					continue // a late duplicate of an earlier query
				}
				rep.msgs = append(rep.msgs, m)
				rep.raw = append(rep.raw, append([]byte(nil), buf[:n]...))
				// keep listening shortly for duplicates
				deadline = time.Now().Add(60 * time.Millisecond)
			}
			if len(rep.msgs) == 0 {
				return nil
			}
			return rep
		}
		exchangeTCP := func(c *simnet.Conn, req *dns.Msg, wait time.Duration) *c20Reply {
			raw, err := req.Pack()
			if err != nil {
				return nil
			}
			frame := make([]byte, 2+len(raw))
			binary.BigEndian.PutUint16(frame, uint16(len(raw)))
			copy(frame[2:], raw)
			if _, err := c.Write(frame); err != nil {
				return nil
			}
			_ = c.SetReadDeadline(time.Now().Add(wait))
			var lb [2]byte
			if _, err := io.ReadFull(c, lb[:]); err != nil {
				return nil
			}
			body := make([]byte, binary.BigEndian.Uint16(lb[:]))
			if _, err := io.ReadFull(c, body); err != nil {
				return nil
			}
			m := new(dns.Msg)
			if m.Unpack(body) != nil {
				res.Add("garbled-response", "garbled-response|tcp", "a TCP response frame does not unpack")
				return nil
			}
			return &c20Reply{msgs: []*dns.Msg{m}, raw: [][]byte{body}}
		}

		for ci, qs := range sc.Clients {
			ci, qs := ci, qs
			s.Go(fmt.Sprintf("client%d", ci), false, func() {
				caddr := fmt.Sprintf("%s:%d", gen.Clients[ci%3], 40000+ci)
				pc, err := nw.ListenUDP(caddr)
				if err != nil {
					res.HarnessErr = err.Error()
					return
				}
				defer pc.Close()
				var conn *simnet.Conn
				connTo := -1
				run := func(qi int, q C20Query, attempts int, wait time.Duration) bool {
					req := c20Request(q, uint16(1+ci*1000+qi*8))
					where := fmt.Sprintf("client %d query %d", ci, qi)
					for a := 0; a < attempts; a++ {
						req.Id++
						var rep *c20Reply
						if q.TCP {
							if conn == nil || q.NewConn || connTo != q.Listener {
								if conn != nil {
									conn.Close()
								}
								conn, err = nw.DialTCP(caddr, net.JoinHostPort(c20Listeners[q.Listener], "53"))
								connTo = q.Listener
								if err != nil {
									conn = nil
									if finalPhase {
										// nobody listens there any more although the server is running
										res.Add("not-live", "not-live|tcp-connect", fmt.Sprintf("%s: connecting to the TCP listener %s fails after the last fault: %v", where, c20Listeners[q.Listener], err))
										return true
									}
									continue
								}
							}
							rep = exchangeTCP(conn, req, wait)
							if rep == nil { // the server may have closed an idle or slow connection
								conn.Close()
								conn = nil
							}
						} else {
							dst, _ := net.ResolveUDPAddr("udp", net.JoinHostPort(c20Listeners[q.Listener], "53"))
							rep = exchangeUDP(pc, dst, req, wait)
						}
						if rep != nil {
							judge(where, q, req, rep, caddr)
							res.Probe("responses_compared")
							return true
						}
						res.Probe("query_retried")
					}
					return false
				}
				for qi, q := range qs {
					if q.SleepMs > 0 {
						s.Sleep(time.Duration(q.SleepMs) * time.Millisecond)
					} else {
						s.Y("client.next")
					}
					if !run(qi, q, 3, 1500*time.Millisecond) {
						unanswered[ci] = append(unanswered[ci], pending{q, nil})
					}
				}
				done++
				// bounded liveness: once faults have stopped, every outstanding query sent again is
				// answered within 5 simulated seconds (and so is a fresh probe)
				for !finalPhase {
					if done == len(sc.Clients) {
						nw.FaultsOff = true
						finalPhase = true
						break
					}
					s.Sleep(50 * time.Millisecond)
				}
				probe := C20Query{Q: 0, Listener: 0}
				final := append(unanswered[ci], pending{probe, nil})
				if len(sc.AcceptErrMs) > 0 {
					for li := range sc.MaxAns {
						final = append(final, pending{C20Query{Q: 0, TCP: true, Listener: li}, nil})
					}
				}
				for k, p := range final {
					q := p.q
					q.NewConn = true
					// a slow, segmented TCP sender may legitimately run into the server's read timeout;
					// the liveness statement is about an undisturbed network
					if !run(900+k, q, 1, 5*time.Second) && !(q.TCP && len(sc.Segments) > 0) {
						res.Add("not-live", "not-live|"+map[bool]string{true: "tcp", false: "udp"}[q.TCP], fmt.Sprintf("client %d: query %+v sent again after the last fault was not answered within 5 simulated seconds", ci, q))
					}
				}
				if conn != nil {
					conn.Close()
				}
			})
		}
		if len(sc.AcceptErrMs) > 0 {
			s.Go("acceptfault", true, func() {
				for i, ms := range sc.AcceptErrMs {
					if ms > 0 {
						s.Sleep(time.Duration(ms) * time.Millisecond)
					} else {
						s.Y("acceptfault.next")
					}
					if finalPhase {
						return
					}
					if ls := nw.Listeners(); len(ls) > 0 && ls[i%len(ls)].InjectAcceptError() {
						res.Fault("tcp-accept-error")
					}
				}
			})
		}
		rerr := s.Run()
		res.FromSim(s)
		if rerr != nil {
			if errors.Is(rerr, sched.ErrDeadlock) {
				res.Add("deadlock", "deadlock", rerr.Error())
			} else {
				res.HarnessErr = rerr.Error()
			}
		}
		for _, p := range s.Panics() {
			res.Add("panic", "panic", p)
		}
		st := nw.Stats
		for i := 0; i < st.Dropped; i++ {
			res.Fault("udp-loss")
		}
		for i := 0; i < st.Duplicated; i++ {
			res.Fault("udp-duplication")
		}
		for i := 0; i < st.Reordered; i++ {
			res.Fault("udp-reordering")
		}
		if len(sc.Segments) > 0 {
			for i := 0; i < st.TCPSegments; i++ {
				res.Fault("tcp-segment")
			}
		}
		s.Shutdown()
		srv.Shutdown()
	})
	res.Nontrivial = res.Probes["responses_compared"] > 0
	return res
}

func TestC20(t *testing.T) {
	core.Explore(t, core.Check[C20Scenario]{Property: "C20", Draw: drawC20, Run: runC20, Summary: summaryC20, Batch: 30})
}
