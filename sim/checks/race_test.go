package checks

import (
	"context"
	"encoding/json"
	"fmt"
	"math/rand"
	"os"
	"path/filepath"
	"regexp"
	"runtime"
	"strings"
	"sync"
	"sync/atomic"
	"testing"
	"time"

	"github.com/miekg/dns"

	"github.com/facebookincubator/dns/dnsrocks/dnsserver"
	"github.com/facebookincubator/dns/dnsrocks/metrics"
	"github.com/facebookincubator/dns/dnsrocks/verifhook"

	"dsim/core"
	"dsim/gen"
	"dsim/sched"
)

// ---- free-running tier under the race detector (C14 b, C19 iii, C11 b) -------------------------
//
// The controlled scheduler's hand-off channels order every access and would blind the race
// detector, so this tier runs the same kind of workload on real cores with the hooks in
// perturbation mode (no synchronisation). Only race reports, panics and the invariants below
// (which do not depend on timing) are judged; a hang is harness trouble.

// lockedUp looks at the stacks of all goroutines and tells whether the code under test is in a true
// deadlock: at least one goroutine with frames of the repository waits for a sync.Mutex / RWMutex,
// and no goroutine with frames of the repository or of the workload is running, runnable, sleeping
// or in a system call - all of them are parked on locks or channels. A system that is merely slow
// (an overloaded machine, a long RocksDB call) always has such a goroutine: the one holding the lock.
var goroutineHead = regexp.MustCompile(`^goroutine (\d+) \[([^\]]*)\]:`)

func lockedUp(self string) (bool, string) {
	buf := make([]byte, 4<<20)
	buf = buf[:runtime.Stack(buf, true)]
	waiting, picture := 0, []string{}
	for _, g := range strings.Split(string(buf), "\n\n") {
		m := goroutineHead.FindStringSubmatch(g)
		if m == nil || strings.Contains(g, self) {
			continue
		}
		if !strings.Contains(g, "facebookincubator/dns/dnsrocks") && !strings.Contains(g, "dsim/checks.raceSlice") {
			continue // runtime, testing, glog, fsnotify's reader, RocksDB's own threads are not goroutines
		}
		state := strings.SplitN(m[2], ",", 2)[0]
		switch {
		case strings.HasPrefix(state, "sync.") || strings.HasPrefix(state, "semacquire"):
			if strings.Contains(g, "dnsrocks/") {
				waiting++
				lines := strings.Split(g, "\n")
				for _, l := range lines {
					if strings.Contains(l, "dnsrocks/") && !strings.HasPrefix(l, "\t") {
						picture = append(picture, fmt.Sprintf("g%s [%s] in %s", m[1], state, strings.TrimPrefix(strings.SplitN(l, "(0x", 2)[0], "github.com/facebookincubator/dns/dnsrocks/")))
						break
					}
				}
			}
		case strings.HasPrefix(state, "chan ") || strings.HasPrefix(state, "select"):
			// parked on a channel: cannot release a lock by itself
		default:
			return false, "" // something of the system is alive
		}
	}
	return waiting > 0, strings.Join(picture, "; ")
}

type raceStats struct {
	Slices      int            `json:"slices"`
	Queries     int64          `json:"queries"`
	Reloads     int64          `json:"reloads"`
	ReloadsOK   int64          `json:"reloads_ok"`
	StatsCalls  int64          `json:"stats_report_calls"`
	GetCalls    int64          `json:"stats_get_calls"`
	Backends    map[string]int `json:"backends"`
	Violations  []string       `json:"violations"`
	WallS       float64        `json:"wall_s"`
	Seed        uint64         `json:"seed"`
	Incremented int64          `json:"counter_increments_checked"`
	StallChecks int64          `json:"lock_up_checks"`
	dead        bool
}

func raceSlice(t *testing.T, backend string, seed uint64, d time.Duration, rs *raceStats) {
	dir, err := os.MkdirTemp("", "race-")
	if err != nil {
		t.Fatal(err)
	}
	defer os.RemoveAll(dir)
	w := &srvWorld{backend: backend, v2: backend == "rdb2", dir: dir, farm: gen.TheFarm(), diskGen: map[string]int{}, diskNK: map[string]bool{}}
	p0 := w.fresh("db")
	if err := w.create(p0, 1, false); err != nil {
		t.Fatal(err)
	}
	st := metrics.NewStats()
	dbc := dnsserver.DBConfig{Path: p0, Driver: srvDriver(backend), ReloadTimeout: 5 * time.Second, ValidationKey: gen.ValidationKey(w.v2)}
	cc := dnsserver.CacheConfig{Enabled: seed%2 == 0, LRUSize: 16}
	if seed%4 == 0 {
		cc.WRSTimeout = 5 // weighted answers are cached too (for five seconds)
	}
	fb, err := dnsserver.NewFBDNSDB(dnsserver.HandlerConfig{}, dbc, cc, &dnsserver.DummyLogger{}, st)
	if err != nil {
		t.Fatal(err)
	}
	if err := fb.Load(); err != nil {
		t.Fatal(err)
	}
	stop := make(chan struct{})
	var wg sync.WaitGroup
	// the real fsnotify watcher of the database directory (returns when the DB is closed)
	watcherDone := make(chan struct{})
	go func() {
		defer close(watcherDone)
		_ = fb.WatchDBAndReload()
	}()
	var queries int64
	violate := func(format string, a ...interface{}) {
		msg := fmt.Sprintf(format, a...)
		rs.Violations = append(rs.Violations, msg)
	}
	var vmu sync.Mutex
	for i := 0; i < 8; i++ {
		wg.Add(1)
		go func(i int) {
			defer wg.Done()
			r := rand.New(rand.NewSource(int64(seed)*100 + int64(i)))
			for {
				select {
				case <-stop:
					return
				default:
				}
				qi := r.Intn(len(gen.Queries))
				maxAns := 1 + r.Intn(4)
				wr := newRecWriter(gen.Clients[r.Intn(len(gen.Clients))])
				_, err := fb.ServeDNS(dnsserver.WithMaxAnswer(context.Background(), maxAns), wr, gen.MakeQuery(qi, r.Intn(2) == 0, "", uint16(r.Intn(65536))))
				atomic.AddInt64(&queries, 1)
				if err != nil || len(wr.msgs) != 1 {
					vmu.Lock()
					violate("query %v: err=%v, %d messages written", gen.Queries[qi], err, len(wr.msgs))
					vmu.Unlock()
					continue
				}
				if gen.Weighted(qi) {
					seen := map[string]bool{}
					for _, rr := range wr.msgs[0].Answer {
						if a, ok := rr.(*dns.A); ok {
							if seen[a.A.String()] {
								vmu.Lock()
								violate("weighted-answer-repeats: %s twice in one answer", a.A)
								vmu.Unlock()
							}
							seen[a.A.String()] = true
						}
					}
					if len(seen) > maxAns || len(seen) == 0 {
						vmu.Lock()
						violate("weighted-answer-count: %d addresses for max answer %d", len(seen), maxAns)
						vmu.Unlock()
					}
				}
			}
		}(i)
	}
	// operator: publish + reload, full and partial, sometimes to a missing path
	wg.Add(1)
	go func() {
		defer wg.Done()
		r := rand.New(rand.NewSource(int64(seed)))
		g := 1
		served := p0 // tracked by the operator itself: switches are done synchronously
		for {
			select {
			case <-stop:
				return
			default:
			}
			g++
			var sig dnsserver.ReloadSignal
			switch r.Intn(5) {
			case 0, 1:
				p := w.fresh("db")
				if err := w.create(p, g, false); err != nil {
					return
				}
				atomic.AddInt64(&rs.Reloads, 1)
				if fb.Reload(*dnsserver.NewFullReloadSignal(p)) == nil {
					atomic.AddInt64(&rs.ReloadsOK, 1)
					served = p
				}
				continue
			case 2:
				sig = *dnsserver.NewFullReloadSignal(filepath.Join(dir, "missing"))
			default:
				if err := w.update(served, g, false); err != nil {
					return
				}
				sig = *dnsserver.NewPartialReloadSignal()
			}
			atomic.AddInt64(&rs.Reloads, 1)
			if r.Intn(2) == 0 {
				if fb.Reload(sig) == nil {
					atomic.AddInt64(&rs.ReloadsOK, 1)
				}
			} else {
				select {
				case fb.ReloadChan <- sig:
				case <-stop:
					return
				}
			}
			time.Sleep(time.Duration(r.Intn(3000)) * time.Microsecond)
		}
	}()
	// stats reporter and exporter
	wg.Add(1)
	go func() {
		defer wg.Done()
		for {
			select {
			case <-stop:
				return
			default:
			}
			fb.ReportBackendStats()
			atomic.AddInt64(&rs.StatsCalls, 1)
			_ = st.Get()
			atomic.AddInt64(&rs.GetCalls, 1)
			time.Sleep(200 * time.Microsecond)
		}
	}()
	// lock-up detector: no query, reload or stats call completed for 10 s AND two looks at all
	// goroutines, 5 s apart, both show the code under test parked on locks with nothing alive that
	// could release them (see lockedUp). The first condition alone would be a matter of timing.
	progress := func() int64 {
		return atomic.LoadInt64(&queries) + atomic.LoadInt64(&rs.Reloads) + atomic.LoadInt64(&rs.StatsCalls)
	}
	end := time.Now().Add(d)
	last, lastMove, strikes, picture := progress(), time.Now(), 0, ""
	stopped := false
	finished := make(chan struct{})
watch:
	for {
		time.Sleep(100 * time.Millisecond)
		if !stopped && !time.Now().Before(end) {
			stopped = true
			close(stop)
			go func() {
				wg.Wait()
				close(finished)
			}()
		}
		select {
		case <-finished:
			break watch
		default:
		}
		if p := progress(); p != last {
			last, lastMove, strikes = p, time.Now(), 0
			continue
		}
		if time.Since(lastMove) < time.Duration(5+5*strikes)*time.Second {
			continue
		}
		atomic.AddInt64(&rs.StallChecks, 1)
		stuck, pic := lockedUp("checks.lockedUp")
		if !stuck {
			strikes, lastMove = 0, time.Now()
			continue
		}
		strikes++
		picture = pic
		if strikes == 2 {
			vmu.Lock()
			violate("deadlock: no query, reload or statistics call completed for %v and every goroutine of the server is parked on a lock or a channel (backend %s): %s",
				time.Since(lastMove).Round(time.Second), backend, picture)
			vmu.Unlock()
			rs.dead = true
			return // the goroutines of this slice stay where they are
		}
	}
	time.Sleep(20 * time.Millisecond) // let a reload taken from ReloadChan finish
	for i := 0; i < 200 && !fb.VerifIdle(); i++ {
		time.Sleep(10 * time.Millisecond)
	}
	// counters equal the sum of their increments regardless of concurrency
	got := st.Get()["DNS_queries"]
	if got != atomic.LoadInt64(&queries) {
		violate("DNS_queries counter is %d after %d queries", got, queries)
	}
	rs.Incremented += queries
	rs.Queries += queries
	closed := make(chan struct{})
	go func() {
		fb.Close()
		close(closed)
	}()
	select {
	case <-closed:
	case <-time.After(120 * time.Second):
		// two minutes for an operation that takes milliseconds: not a matter of timing any more
		violate("deadlock: FBDNSDB.Close did not return within 120 s (backend %s)", backend)
		return
	}
	select {
	case <-watcherDone:
	case <-time.After(5 * time.Second):
		violate("the database watcher did not stop within 5 s after Close")
	}
	st.VerifStop()
}

func TestC14Race(t *testing.T) {
	env := core.GetEnv("C14")
	if os.Getenv("VERIF_RACE_TIER") == "" {
		t.Skip("race tier is run by ./check")
	}
	verifhook.Attach(sched.Perturb{})
	defer verifhook.Attach(nil)
	rs := &raceStats{Backends: map[string]int{}, Seed: env.Seed}
	start := time.Now()
	deadline := start.Add(time.Duration(env.BudgetS * float64(time.Second)))
	backends := []string{"cdb", "rdb2", "rdb1"}
	for i := 0; time.Now().Before(deadline); i++ {
		b := backends[i%len(backends)]
		raceSlice(t, b, env.Seed*1000+uint64(i), 1500*time.Millisecond, rs)
		rs.Slices++
		rs.Backends[b]++
		if rs.dead {
			break
		}
	}
	rs.WallS = time.Since(start).Seconds()
	// after a deadlock verdict the goroutines of the last slice are still there: read the counters they
	// update the way they write them
	snap := &raceStats{Slices: rs.Slices, Queries: rs.Queries, Reloads: atomic.LoadInt64(&rs.Reloads), ReloadsOK: atomic.LoadInt64(&rs.ReloadsOK),
		StatsCalls: atomic.LoadInt64(&rs.StatsCalls), GetCalls: atomic.LoadInt64(&rs.GetCalls), Backends: rs.Backends, Violations: rs.Violations,
		WallS: rs.WallS, Seed: rs.Seed, Incremented: rs.Incremented, StallChecks: atomic.LoadInt64(&rs.StallChecks)}
	rs = snap
	data, _ := json.MarshalIndent(rs, "", " ")
	_ = os.WriteFile(filepath.Join(env.OutDir, "race.json"), data, 0o644)
	for _, v := range rs.Violations {
		t.Errorf("RACE-TIER-VIOLATION %s", v)
	}
}
