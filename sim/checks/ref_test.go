package checks

import (
	"bytes"
	"fmt"
	"os"
	"strings"
	"testing"

	"github.com/facebookincubator/dns/dnsrocks/dnsdata"

	"dsim/dump"
	"dsim/gen"
)

// rdbCodec mirrors what the RocksDB compiler configures (rdb.initCodec is unexported).
func rdbCodec(serial uint32, v2 bool) *dnsdata.Codec {
	c := new(dnsdata.Codec)
	c.Serial = serial
	c.Acc.Ranger.Enable()
	c.Acc.NoPrefixSets = true
	c.NoRnetOutput = true
	c.Features.UseV2Keys = v2
	return c
}

func cdbCodec(serial uint32) *dnsdata.Codec {
	c := new(dnsdata.Codec)
	c.Serial = serial
	return c
}

func isIgnoredLine(l string) bool {
	t := strings.TrimLeft(l, " ")
	return len(t) < 2 || strings.HasPrefix(t, "#")
}

// referenceDB is the oracle of C07/C08/C09: the multiset of records the line-by-line codec emits
// for the text, run sequentially, plus the derived subnet tables and the feature record.
func referenceDB(lines []string, codec *dnsdata.Codec) (dump.DB, error) {
	out := dump.DB{}
	for _, l := range lines {
		if isIgnoredLine(l) {
			continue
		}
		recs, err := codec.ConvertLn([]byte(strings.TrimLeft(l, " ")))
		if err != nil {
			return nil, fmt.Errorf("line %q: %w", l, err)
		}
		for _, r := range recs {
			out.Add(r.Key, r.Value)
		}
	}
	acc, err := codec.Acc.MarshalMap()
	if err != nil {
		return nil, err
	}
	for _, r := range acc {
		out.Add(r.Key, r.Value)
	}
	feat, err := codec.Features.MarshalMap()
	if err != nil {
		return nil, err
	}
	for _, r := range feat {
		out.Add(r.Key, r.Value)
	}
	return out.Normalize(), nil
}

// preprocess runs the real preprocessor over the text with plain whole-buffer reads.
func preprocess(lines []string, serial uint32) ([]string, error) {
	c := new(dnsdata.Codec)
	c.Serial = serial
	c.Acc.Ranger.Enable()
	c.Acc.NoPrefixSets = true
	c.NoRnetOutput = true
	var w bytes.Buffer
	if err := c.Preprocess(strings.NewReader(strings.Join(lines, "\n")+"\n"), &w); err != nil {
		return nil, err
	}
	var out []string
	for _, l := range strings.Split(w.String(), "\n") {
		if l != "" {
			out = append(out, l)
		}
	}
	return out, nil
}

func TestGenValid(t *testing.T) {
	if os.Getenv("VERIF_SANITY") == "" {
		t.Skip("set VERIF_SANITY=1")
	}
	types := map[byte]int{}
	for seed := uint64(0); seed < 300; seed++ {
		lines := gen.RandomFile(seed, gen.FileOpts{Records: 60, Nets: 20, Tag: int(seed)})
		for _, l := range lines {
			if !isIgnoredLine(l) {
				types[l[0]]++
			}
		}
		for _, v2 := range []bool{false, true} {
			if _, err := referenceDB(lines, rdbCodec(7, v2)); err != nil {
				t.Fatalf("seed %d v2=%v: %v", seed, v2, err)
			}
		}
		if _, err := referenceDB(lines, cdbCodec(7)); err != nil {
			t.Fatalf("seed %d cdb: %v", seed, err)
		}
		pp, err := preprocess(lines, 7)
		if err != nil {
			t.Fatalf("seed %d preprocess: %v", seed, err)
		}
		a, _ := referenceDB(lines, rdbCodec(7, true))
		b, err := referenceDB(pp, rdbCodec(7, true))
		if err != nil {
			t.Fatalf("seed %d: preprocessed text rejected: %v", seed, err)
		}
		if d := dump.Diff(b, a, "preprocessed", "original"); d != "" {
			t.Fatalf("seed %d: %s", seed, d)
		}
		bad := gen.RandomFile(seed, gen.FileOpts{Records: 10, Nets: 3, BadLine: true})
		if _, err := referenceDB(bad, rdbCodec(7, false)); err == nil {
			t.Fatalf("seed %d: bad line accepted: %q", seed, bad)
		}
	}
	fmt.Println("record types:", len(types), types)
}
