package checks

import (
	"bytes"
	"runtime"
	"strconv"
	"sync"

	"github.com/coredns/coredns/request"
	"github.com/miekg/dns"
)

func curGid() uint64 {
	var buf [64]byte
	n := runtime.Stack(buf[:], false)
	b := buf[len("goroutine "):n]
	i := bytes.IndexByte(b, ' ')
	id, _ := strconv.ParseUint(string(b[:i]), 10, 64)
	return id
}

// recStats is a recording implementation of the public stats.Stats interface. Increments made
// by a goroutine that is currently serving a query are also attributed to that query.
type recStats struct {
	mu      sync.Mutex
	vals    map[string]int64
	cur     map[uint64]*QRec
	samples map[string]int
}

func newRecStats() *recStats {
	return &recStats{vals: map[string]int64{}, cur: map[uint64]*QRec{}, samples: map[string]int{}}
}

func (r *recStats) begin(q *QRec) {
	r.mu.Lock()
	r.cur[curGid()] = q
	r.mu.Unlock()
}

func (r *recStats) end(q *QRec) {
	r.mu.Lock()
	delete(r.cur, curGid())
	r.mu.Unlock()
}

func (r *recStats) get(k string) int64 {
	r.mu.Lock()
	defer r.mu.Unlock()
	return r.vals[k]
}

func (r *recStats) ResetCounterTo(key string, value int64) {
	r.mu.Lock()
	r.vals[key] = value
	r.mu.Unlock()
}
func (r *recStats) ResetCounter(key string) { r.ResetCounterTo(key, 0) }
func (r *recStats) IncrementCounterBy(key string, value int64) {
	r.mu.Lock()
	r.vals[key] += value
	if q := r.cur[curGid()]; q != nil {
		if q.Counters == nil {
			q.Counters = map[string]int64{}
		}
		q.Counters[key] += value
	}
	r.mu.Unlock()
}
func (r *recStats) IncrementCounter(key string) { r.IncrementCounterBy(key, 1) }
func (r *recStats) AddSample(key string, value int64) {
	r.mu.Lock()
	r.samples[key]++
	if q := r.cur[curGid()]; q != nil {
		if q.Counters == nil {
			q.Counters = map[string]int64{}
		}
		q.Counters["sample:"+key]++
	}
	r.mu.Unlock()
}

// recLogger is a recording implementation of dnsserver.Logger.
type recLogger struct {
	st *recStats
}

func (l *recLogger) Log(state request.Request, r *dns.Msg, ecs *dns.EDNS0_SUBNET) {
	l.st.mu.Lock()
	if q := l.st.cur[curGid()]; q != nil {
		q.Logged = append(q.Logged, r.Copy())
	}
	l.st.mu.Unlock()
}

func (l *recLogger) LogFailed(state request.Request, r *dns.Msg, ecs *dns.EDNS0_SUBNET) {
	l.st.mu.Lock()
	if q := l.st.cur[curGid()]; q != nil {
		q.LogFailed++
	}
	l.st.mu.Unlock()
}
