package checks

import (
	"context"
	"fmt"
	"net"
	"os"
	"testing"

	"github.com/miekg/dns"

	"github.com/facebookincubator/dns/dnsrocks/dnsserver"
	"github.com/facebookincubator/dns/dnsrocks/dnsserver/stats"

	"dsim/gen"
)

// recWriter is a dns.ResponseWriter that records what is written.
type recWriter struct {
	remote net.Addr
	local  net.Addr
	msgs   []*dns.Msg
	tcp    bool
}

func newRecWriterTCP(remote, local string) *recWriter {
	ra, _ := net.ResolveTCPAddr("tcp", remote)
	la, _ := net.ResolveTCPAddr("tcp", local)
	return &recWriter{remote: ra, local: la, tcp: true}
}

func newRecWriterUDP(remote, local string) *recWriter {
	ra, _ := net.ResolveUDPAddr("udp", remote)
	la, _ := net.ResolveUDPAddr("udp", local)
	return &recWriter{remote: ra, local: la}
}

func newRecWriter(ip string) *recWriter {
	return &recWriter{remote: &net.UDPAddr{IP: net.ParseIP(ip), Port: 40000}, local: &net.UDPAddr{IP: net.ParseIP("127.0.0.1"), Port: 53}}
}
func (w *recWriter) LocalAddr() net.Addr       { return w.local }
func (w *recWriter) RemoteAddr() net.Addr      { return w.remote }
func (w *recWriter) WriteMsg(m *dns.Msg) error { w.msgs = append(w.msgs, m.Copy()); return nil }
func (w *recWriter) Write(b []byte) (int, error) {
	m := new(dns.Msg)
	_ = m.Unpack(b)
	w.msgs = append(w.msgs, m)
	return len(b), nil
}
func (w *recWriter) Close() error        { return nil }
func (w *recWriter) TsigStatus() error   { return nil }
func (w *recWriter) TsigTimersOnly(bool) {}
func (w *recWriter) Hijack()             {}

func TestSrvSanity(t *testing.T) {
	if os.Getenv("VERIF_SANITY") == "" {
		t.Skip("set VERIF_SANITY=1")
	}
	f := gen.TheFarm()
	for _, kind := range []string{"cdb", "rdb1", "rdb2"} {
		var path, driver string
		switch kind {
		case "cdb":
			path, driver = f.CDB(7, false), "cdb"
		case "rdb1":
			path, driver = f.RDB(7, false, false), "rocksdb"
		case "rdb2":
			path, driver = f.RDB(7, true, false), "rocksdb"
		}
		fb, err := dnsserver.NewFBDNSDBBasic(dnsserver.HandlerConfig{}, dnsserver.DBConfig{Path: path, Driver: driver}, dnsserver.CacheConfig{}, &dnsserver.DummyLogger{}, &stats.DummyStats{})
		if err != nil {
			t.Fatal(err)
		}
		if err := fb.Load(); err != nil {
			t.Fatal(err)
		}
		if err := fb.ValidateDbKey(gen.ValidationKey(kind == "rdb2")); err != nil {
			t.Fatalf("%s: validation key: %v", kind, err)
		}
		for qi := range gen.Queries {
			for ci, c := range gen.Clients {
				w := newRecWriter(c)
				rc, err := fb.ServeDNS(context.Background(), w, gen.MakeQuery(qi, ci%2 == 0, "", 1))
				if err != nil || len(w.msgs) != 1 {
					t.Fatalf("%s q%d c%d: rc=%d err=%v msgs=%d", kind, qi, ci, rc, err, len(w.msgs))
				}
				st := gen.Stamps(w.msgs[0])
				if kind == "cdb" && ci < 2 {
					fmt.Printf("%s q=%v c=%s rcode=%d an=%d ns=%d ex=%d stamps=%v\n", kind, gen.Queries[qi], c, w.msgs[0].Rcode, len(w.msgs[0].Answer), len(w.msgs[0].Ns), len(w.msgs[0].Extra), st)
				}
				if len(st) > 1 || (len(st) == 1 && st[7] == 0) {
					t.Errorf("%s q=%v c=%s: stamps %v\n%v", kind, gen.Queries[qi], c, st, w.msgs[0])
				}
			}
		}
		fb.Close()
	}
}
