package checks

import (
	"context"
	"errors"
	"fmt"
	"os"
	"path/filepath"
	"strings"
	"syscall"
	"testing"
	"time"

	"github.com/fsnotify/fsnotify"
	"github.com/miekg/dns"
	"pgregory.net/rapid"

	"github.com/facebookincubator/dns/dnsrocks/db"
	"github.com/facebookincubator/dns/dnsrocks/dnsdata/rdb"
	"github.com/facebookincubator/dns/dnsrocks/dnsserver"
	"github.com/facebookincubator/dns/dnsrocks/fbserver"

	"dsim/core"
	"dsim/gen"
	"dsim/mon"
	"dsim/sched"
)

// ---- the simulated server shared by C05, C12, C14 and C19(ii) ------------------------------

// SrvQuery is one client query.
type SrvQuery struct {
	Q       int  `json:"q"`      // index into gen.Queries
	Client  int  `json:"client"` // index into gen.Clients
	EDNS    bool `json:"edns,omitempty"`
	ECS     int  `json:"ecs,omitempty"`     // 0 = none, else index+1 into srvECS
	BadVers bool `json:"badvers,omitempty"` // EDNS version 1: must be answered with BADVERS
	SleepMs int  `json:"sleep_ms,omitempty"`
	// Hdr varies the header bits a response echoes from its query: bit 0 clears RD, bit 1 sets CD
	Hdr int `json:"hdr,omitempty"`
	// Opt adds an EDNS option the server does not know (needs EDNS): 1 COOKIE, 2 NSID, 3 PADDING.
	// Unknown options are ignored: the answer is the one a query without them gets
	Opt int `json:"opt,omitempty"`
}

var srvECS = []string{"10.1.9.0/24", "10.2.9.0/24", "198.51.100.0/24", "2001:db8:1::/48"}

// SrvStall keeps one query parked at one of the handler's yield points for a while (a slow or
// descheduled handler goroutine), so that whole reloads fit between two of its steps.
type SrvStall struct {
	Client int `json:"client"`
	Query  int `json:"query"`
	Point  int `json:"point"` // index into srvStallPoints
	Ms     int `json:"ms"`
}

var srvStallPoints = []string{"serve.acquired", "serve.located", "serve.authoritative", "serve.answered", "serve.authority", "serve.cache.insert", "serve.written"}

// SrvOp is one operator step.
type SrvOp struct {
	Kind    string `json:"kind"` // "reload", "jump", "close"
	Full    bool   `json:"full,omitempty"`
	Fault   string `json:"fault,omitempty"` // "", "missing", "garbage", "nokey", "inject", "lowio" (the low-level catch-up call of a RocksDB partial reload fails)
	DelayMs int    `json:"delay_ms,omitempty"`
	After   bool   `json:"after,omitempty"`
	Low     bool   `json:"low,omitempty"`   // RocksDB partial reload: the delay is spent inside the low-level catch-up call (a slow disk)
	Decoy   bool   `json:"decoy,omitempty"` // after a successful switch, republish the path served before with a decoy generation
	// Target of a full reload: 0 = a fresh path; 1 = the path of the previous full reload if that one
	// failed (made valid first: "retry the switch"); 2 = the path already served (republished)
	SamePath int `json:"same_path,omitempty"`
	SleepMs  int `json:"sleep_ms,omitempty"`
	JumpS    int `json:"jump_s,omitempty"`
	// Proc mode only. Via: how a partial reload is asked for: 0 = a file-system event for the served
	// path (the -watchdb loop), 1 = the control file "reload", 2 = SIGHUP (Server.ReloadDB). Full
	// reloads always travel through the control file "switchdb". EvDup extra events (Write, Chmod)
	// follow the first one, as inotify reports them for one publication.
	Via   int `json:"via,omitempty"`
	EvDup int `json:"ev_dup,omitempty"`
}

// FsEv is one spurious file-system event of proc mode.
type FsEv struct {
	PauseMs int `json:"pause_ms"`
	// 0 the served database path, 1 another file next to it, 2 control file "reload" (not present),
	// 3 an unknown file in the control directory, 4 control file "switchdb" (whatever is on disk)
	Target int `json:"target"`
	Op     int `json:"op"` // index into fsOps
}

var fsOps = []fsnotify.Op{fsnotify.Create, fsnotify.Write, fsnotify.Rename, fsnotify.Chmod, fsnotify.Remove}

// Label names the reload class.
func (o SrvOp) Label(timeoutMs int) string {
	if o.Kind != "reload" {
		return o.Kind
	}
	l := "partial"
	if o.Full {
		l = "full"
	}
	if o.Fault != "" {
		l += "/" + o.Fault
	} else {
		l += "/ok"
	}
	if o.DelayMs > timeoutMs {
		l += "/timeout-late"
	} else if o.DelayMs > 0 {
		l += "/slow"
	}
	switch {
	case o.Full && o.Fault == "" && o.SamePath == 1:
		l += "/retry-path"
	case o.Full && o.Fault == "" && o.SamePath == 2:
		l += "/served-path"
	}
	return l
}

// SrvScenario is one simulated history of the server.
type SrvScenario struct {
	Backend    string       `json:"backend"` // "cdb", "rdb1", "rdb2"
	TimeoutMs  int          `json:"timeout_ms"`
	Cache      bool         `json:"cache,omitempty"`
	LRUSize    int          `json:"lru_size,omitempty"`
	WRSTimeout int          `json:"wrs_timeout,omitempty"`
	Clients    [][]SrvQuery `json:"clients"`
	Ops        []SrvOp      `json:"ops"`
	ViaChan    bool         `json:"via_chan,omitempty"`
	PeriodicS  int          `json:"periodic_s,omitempty"`  // real PeriodicDBReload with this interval (needs ViaChan)
	StatsEvery int          `json:"stats_every,omitempty"` // a stats reporter calling ReportBackendStats every N ms
	// Signals are partial-reload signals sent through ReloadChan by a task of their own, the way
	// Server.ReloadDB (SIGHUP) does: each after the given pause in ms, whatever the operator is doing
	// (needs ViaChan)
	Signals []int      `json:"signals,omitempty"`
	Stalls  []SrvStall `json:"stalls,omitempty"`
	// Proc: the handler lives in a real fbserver.Server as in cmd/dnsrocks: reload requests travel as
	// files plus file-system events through the real watcher loops (on simulated event channels), as
	// SIGHUP through Server.ReloadDB; Server.LogMapAge and Server.DumpBackendStats run on their tickers;
	// a watcher that fails shuts the server down (Server.WatchDBAndReload); shutdown is Server.Shutdown.
	Proc    bool   `json:"proc,omitempty"`
	FsNoise []FsEv `json:"fs_noise,omitempty"`
	// WatchErrMs > 0: after that many ms the error channel of a watcher (WatchErrOn: 0 database, 1 control
	// directory) delivers an error, as inotify does on a queue overflow
	WatchErrMs int `json:"watch_err_ms,omitempty"`
	WatchErrOn int `json:"watch_err_on,omitempty"`
	// CleanupFails: the control path of the configuration is not a directory, so that removing the
	// processed control file fails (ENOTDIR) at the very end of every otherwise successful reload,
	// which then reports an error although the switch has been made. Only for checks that do not
	// judge what a reload's return value means (C06, C14).
	CleanupFails bool    `json:"cleanup_fails,omitempty"`
	Tape         []uint8 `json:"tape"`
	TapeSeed     uint64  `json:"tape_seed"`
	Calm         int     `json:"calm"`
}

// QRec is the record of one query.
type QRec struct {
	Client, Idx int
	Q           SrvQuery
	Inv, Ret    uint64
	Resp        *dns.Msg
	Req         *dns.Msg
	Rcode       int
	Err         error
	Stamp       int // -1: no stamped record in the response; -2: torn (several stamps)
	Stamps      map[int]int
	Counters    map[string]int64 // counter deltas attributed to this query (C19)
	Logged      []*dns.Msg
	LogFailed   int
}

// OpRec is the record of one operator step.
type OpRec struct {
	Idx      int
	Op       SrvOp
	Label    string
	Inv, Ret uint64
	Pub      uint64 // sequence number right after the new generation was published
	Err      error
	Gen      int // generation published for this reload
	Path     string
	OK       bool
	Done     bool
}

// SrvHistory is what a run leaves behind for the oracles.
type SrvHistory struct {
	Queries []*QRec
	Ops     []*OpRec
	Mon     *mon.Monitor
	Sim     *sched.Sim
	RunErr  error
	Closed  bool
	InitGen int
	// proc mode
	Shutdowns   int      // calls of Server.Shutdown that returned
	WatcherDied []string // watcher loops that returned an error nobody injected
}

func srvDriver(backend string) string {
	if backend == "cdb" {
		return "cdb"
	}
	return "rocksdb"
}

type srvWorld struct {
	backend string
	v2      bool
	dir     string
	farm    *gen.Farm
	diskGen map[string]int
	diskNK  map[string]bool
	n       int
}

func (w *srvWorld) fresh(tag string) string {
	w.n++
	return filepath.Join(w.dir, fmt.Sprintf("%s%d", tag, w.n))
}

// create makes a new path holding generation g.
func (w *srvWorld) create(path string, g int, noKey bool) error {
	w.diskGen[path] = g
	w.diskNK[path] = noKey
	if w.backend == "cdb" {
		return os.Link(w.farm.CDB(g, noKey), path)
	}
	return gen.CopyDir(w.farm.RDB(g, w.v2, noKey), path)
}

// update publishes generation g onto an existing path (atomic rename for CDB, diff for RocksDB).
func (w *srvWorld) update(path string, g int, noKey bool) error {
	if w.backend == "cdb" {
		tmp := w.fresh("tmp")
		if err := os.Link(w.farm.CDB(g, noKey), tmp); err != nil {
			return err
		}
		if err := os.Rename(tmp, path); err != nil {
			return err
		}
	} else {
		d := w.farm.Diff(w.diskGen[path], w.diskNK[path], g, noKey)
		if err := rdb.ApplyDiff(d, path); err != nil {
			return err
		}
	}
	w.diskGen[path] = g
	w.diskNK[path] = noKey
	return nil
}

// prepare compiles everything the scenario will need, outside the bubble.
func (w *srvWorld) prepare(sc *SrvScenario) {
	w.farm.Diff(1, false, 1, false)
	need := func(g int, noKey bool) {
		if w.backend == "cdb" {
			w.farm.CDB(g, noKey)
		} else {
			w.farm.RDB(g, w.v2, noKey)
		}
	}
	need(1, false)
	gens := []int{1}
	nk := map[int]bool{1: false}
	for i, o := range sc.Ops {
		if o.Kind != "reload" {
			continue
		}
		gens = append(gens, 2+i)
		nk[2+i] = o.Fault == "nokey"
		if w.backend == "cdb" || o.Full {
			need(2+i, o.Fault == "nokey")
		}
		if o.Decoy && w.backend == "cdb" {
			need(900+i, false)
		}
		if o.Decoy {
			gens = append(gens, 900+i)
			nk[900+i] = false
		}
	}
	if w.backend != "cdb" {
		// every diff a run can ask for, computed here: computing one inside the bubble would run
		// the preprocessor's goroutines under the scheduler the first time only (the farm caches),
		// which makes the trace depend on what the process did before
		for _, a := range gens {
			for _, b := range gens {
				if a < b {
					w.farm.Diff(a, nk[a], b, nk[b])
				}
			}
		}
	}
}

// srvHooks lets a check observe the run.
type srvHooks struct {
	stats *recStats
}

// runSrv executes the scenario in a bubble and returns the history.
func runSrv(t *testing.T, sc *SrvScenario, keep bool, res *core.Result, hooks *srvHooks) *SrvHistory {
	h := &SrvHistory{InitGen: 1}
	dir, err := os.MkdirTemp("", "srv-")
	if err != nil {
		res.HarnessErr = err.Error()
		return h
	}
	defer os.RemoveAll(dir)
	w := &srvWorld{backend: sc.Backend, v2: sc.Backend == "rdb2", dir: dir, farm: gen.TheFarm(), diskGen: map[string]int{}, diskNK: map[string]bool{}}
	w.prepare(sc)
	if hooks == nil {
		hooks = &srvHooks{}
	}
	hooks.stats = newRecStats()
	rst := hooks.stats
	logger := &recLogger{st: rst}
	opt := sched.Options{Tape: sc.Tape, TapeSeed: sc.TapeSeed, Calm: sc.Calm, KeepSchedule: keep, MaxSteps: 60000}
	curQuery := make([]int, len(sc.Clients)) // index of the query each client is serving (-1: none)
	for i := range curQuery {
		curQuery[i] = -1
	}
	if len(sc.Stalls) > 0 {
		stalled := map[int]bool{}
		opt.StallAt = func(task, point string) time.Duration {
			for si, st := range sc.Stalls {
				if stalled[si] || st.Client >= len(curQuery) || task != fmt.Sprintf("client%d", st.Client) ||
					curQuery[st.Client] != st.Query || point != srvStallPoints[st.Point%len(srvStallPoints)] {
					continue
				}
				stalled[si] = true
				res.Fault("query-stalled")
				return time.Duration(st.Ms) * time.Millisecond
			}
			return 0
		}
	}
	sched.Bubble(t, opt, func(s *sched.Sim) {
		h.Sim = s
		m := mon.New(s)
		m.Quiet = true
		h.Mon = m
		p0 := w.fresh("db")
		if err := w.create(p0, 1, false); err != nil {
			res.HarnessErr = "create: " + err.Error()
			return
		}
		dbc := dnsserver.DBConfig{Path: p0, Driver: srvDriver(sc.Backend), ReloadTimeout: time.Duration(sc.TimeoutMs) * time.Millisecond,
			ValidationKey: gen.ValidationKey(w.v2)}
		cc := dnsserver.CacheConfig{Enabled: sc.Cache, LRUSize: sc.LRUSize, WRSTimeout: int64(sc.WRSTimeout)}
		notADir := filepath.Join(dir, "control-path-is-a-file")
		if sc.CleanupFails {
			if err := os.WriteFile(notADir, []byte("x"), 0o644); err != nil {
				res.HarnessErr = err.Error()
				return
			}
			dbc.ControlPath = notADir
			res.Fault("control-file-cleanup-fails")
		}
		var fb *dnsserver.FBDNSDB
		var srv *fbserver.Server
		var inner db.DBI
		var err error
		ctlDir := filepath.Join(dir, "ctl")
		if sc.Proc {
			if err = os.MkdirAll(ctlDir, 0o755); err != nil {
				res.HarnessErr = err.Error()
				return
			}
			conf := fbserver.NewServerConfig()
			if !sc.CleanupFails {
				dbc.ControlPath = ctlDir // else the control files still live in ctlDir: the watcher loop takes their names from the events
			}
			conf.DBConfig, conf.CacheConfig = dbc, cc
			// NewServer builds the handler (with its ReloadChan loop) and opens the database, as in cmd/dnsrocks
			srv = fbserver.NewServer(conf, logger, rst, nullExporter{})
			fb = srv.VerifDB()
			inner = db.VerifDBI(fb.VerifDB())
		} else {
			inner, err = db.VerifOpenDBI(p0, srvDriver(sc.Backend))
			if err != nil {
				res.HarnessErr = "open: " + err.Error()
				return
			}
		}
		b0 := m.Wrap(inner, p0)
		var derive func(nb *mon.Backend, in db.DBI, path string)
		setCatch := func(b *mon.Backend, openPath string) {
			if sc.Backend != "cdb" {
				b.CatchUp = func(p string) bool { return p == openPath }
				if r := db.VerifRDB(b.Inner()); r != nil {
					lf := &mon.LowFault{M: m}
					rdb.VerifWrapDBI(r, func(d rdb.DBI) rdb.DBI { lf.DBI = d; return lf })
					b.Low = lf
				}
			}
			b.Derive = derive
		}
		derive = func(nb *mon.Backend, in db.DBI, path string) { setCatch(nb, path) }
		setCatch(b0, p0)

		if !sc.Proc {
			if sc.ViaChan {
				fb, err = dnsserver.NewFBDNSDB(dnsserver.HandlerConfig{}, dbc, cc, logger, rst)
			} else {
				fb, err = dnsserver.NewFBDNSDBBasic(dnsserver.HandlerConfig{}, dbc, cc, logger, rst)
			}
			if err != nil {
				res.HarnessErr = err.Error()
				return
			}
		}
		fb.VerifSetDB(db.VerifNewDB(b0))
		viaChan := sc.ViaChan || sc.Proc

		closing := false
		inflight := 0
		for ci, qs := range sc.Clients {
			ci, qs := ci, qs
			s.Go(fmt.Sprintf("client%d", ci), false, func() {
				for qi, q := range qs {
					if q.SleepMs > 0 {
						s.Sleep(time.Duration(q.SleepMs) * time.Millisecond)
					} else {
						s.Y("client.next")
					}
					if closing {
						return
					}
					ecs := ""
					if q.ECS > 0 {
						ecs = srvECS[(q.ECS-1)%len(srvECS)]
					}
					rec := &QRec{Client: ci, Idx: qi, Q: q, Stamp: -1}
					rec.Req = gen.MakeQuery(q.Q, q.EDNS || q.BadVers, ecs, uint16(1000*ci+qi+1))
					if q.BadVers {
						rec.Req.IsEdns0().SetVersion(1)
					}
					if o := rec.Req.IsEdns0(); o != nil && q.Opt > 0 {
						switch q.Opt {
						case 1:
							o.Option = append(o.Option, &dns.EDNS0_COOKIE{Code: dns.EDNS0COOKIE, Cookie: "24a5ac1223344556"})
						case 2:
							o.Option = append(o.Option, &dns.EDNS0_NSID{Code: dns.EDNS0NSID, Nsid: ""})
						default:
							o.Option = append(o.Option, &dns.EDNS0_PADDING{Padding: make([]byte, 12)})
						}
					}
					if q.Hdr&1 != 0 {
						rec.Req.RecursionDesired = false
					}
					if q.Hdr&2 != 0 {
						rec.Req.CheckingDisabled = true
					}
					wr := newRecWriter(gen.Clients[q.Client%len(gen.Clients)])
					h.Queries = append(h.Queries, rec)
					inflight++
					rst.begin(rec)
					rec.Inv = s.Seq()
					curQuery[ci] = qi
					rec.Rcode, rec.Err = fb.ServeDNS(context.Background(), wr, rec.Req.Copy())
					curQuery[ci] = -1
					rec.Ret = s.Seq()
					rst.end(rec)
					inflight--
					if len(wr.msgs) > 0 {
						rec.Resp = wr.msgs[0]
						rec.Stamps = gen.Stamps(rec.Resp)
						switch len(rec.Stamps) {
						case 0:
						case 1:
							for g := range rec.Stamps {
								rec.Stamp = g
							}
						default:
							rec.Stamp = -2
						}
					}
					if rec.Resp != nil && rec.Resp.Id != rec.Req.Id {
						res.Add("wrong-id", "wrong-id", fmt.Sprintf("client %d query %d: response id %d for request id %d", ci, qi, rec.Resp.Id, rec.Req.Id))
					}
					if len(wr.msgs) > 1 {
						res.Add("double-write", "double-write", fmt.Sprintf("client %d query %d: %d messages written", ci, qi, len(wr.msgs)))
					}
				}
			})
		}

		if sc.PeriodicS > 0 && viaChan {
			if sc.Proc {
				s.Go("periodic", true, func() { srv.PeriodicDBReload(sc.PeriodicS) })
			} else {
				s.Go("periodic", true, func() { fb.PeriodicDBReload(sc.PeriodicS) })
			}
		}
		quit := make(chan struct{})
		if len(sc.Signals) > 0 && viaChan {
			s.Go("signaller", true, func() {
				for _, ms := range sc.Signals {
					if ms > 0 {
						s.Sleep(time.Duration(ms) * time.Millisecond)
					} else {
						s.Y("signaller.next")
					}
					select {
					case fb.ReloadChan <- *dnsserver.NewPartialReloadSignal():
						res.Fault("async-reload-signal")
					case <-quit: // nobody receives once the server is closed
						return
					}
					s.Y("signaller.sent")
				}
			})
		}
		stop := false
		if sc.StatsEvery > 0 {
			s.Go("statsreporter", true, func() {
				for i := 0; i < 1000 && !stop; i++ {
					s.Sleep(time.Duration(sc.StatsEvery) * time.Millisecond)
					fb.ReportBackendStats()
				}
			})
		}

		// ---- proc mode: the goroutines cmd/dnsrocks starts around the server -------------------------
		type fsWatch struct {
			ev   chan fsnotify.Event
			er   chan error
			gone chan struct{} // closed when the watcher loop has returned
		}
		var dbW, ctlW *fsWatch
		hup := make(chan struct{})
		emit := func(fw *fsWatch, name string, op fsnotify.Op) bool {
			select {
			case fw.ev <- fsnotify.Event{Name: name, Op: op}:
				res.Fault("fs-event")
				s.Y("fs.sent")
				return true
			case <-fw.gone:
				return false
			case <-quit:
				return false
			}
		}
		// doShutdown is what cmd/dnsrocks does on SIGTERM and what Server.WatchDBAndReload /
		// WatchControlDirAndReload do when their watcher fails: Server.Shutdown. The listeners (not
		// started here) are shut first, which drains the handlers in flight.
		doShutdown := func(rec *OpRec) {
			closing = true
			s.Yield("close.drain", func() bool { return inflight == 0 })
			if rec != nil {
				rec.Inv = s.Seq()
			}
			srv.Shutdown()
			if rec != nil {
				rec.Ret = s.Seq()
				rec.Done = true
			}
			h.Closed = true
			h.Shutdowns++
			res.Fault("shutdown")
		}
		if sc.Proc {
			watcherErrInjected := map[string]bool{}
			startWatcher := func(name string, loop func(chan fsnotify.Event, chan error) error) *fsWatch {
				fw := &fsWatch{ev: make(chan fsnotify.Event), er: make(chan error), gone: make(chan struct{})}
				s.Go(name, true, func() {
					err := loop(fw.ev, fw.er)
					close(fw.gone)
					if err != nil {
						if !watcherErrInjected[name] {
							h.WatcherDied = append(h.WatcherDied, name+": "+err.Error())
						}
						// fbserver.Server.WatchDBAndReload / WatchControlDirAndReload: "If watcher fails - shutdown"
						res.Probe("shutdown_by_failed_watcher")
						doShutdown(nil)
					}
				})
				return fw
			}
			dbW = startWatcher("watchdb", fb.VerifWatchDB)
			ctlW = startWatcher("watchctl", fb.VerifWatchControlDir)
			s.Go("mapage", true, srv.LogMapAge)
			s.Go("backendstats", true, srv.DumpBackendStats)
			s.Go("sighup", true, func() {
				for {
					select {
					case <-hup:
						s.Y("sighup.received")
						srv.ReloadDB() // blocks for good once the server is closed: nobody receives
					case <-quit:
						return
					}
				}
			})
			if len(sc.FsNoise) > 0 {
				s.Go("fsnoise", true, func() {
					for _, e := range sc.FsNoise {
						if e.PauseMs > 0 {
							s.Sleep(time.Duration(e.PauseMs) * time.Millisecond)
						} else {
							s.Y("fsnoise.next")
						}
						op := fsOps[e.Op%len(fsOps)]
						ok := true
						switch e.Target {
						case 0:
							ok = emit(dbW, fb.VerifDBPath(), op)
						case 1:
							ok = emit(dbW, filepath.Join(dir, "unrelated.tmp"), op)
						case 2:
							ok = emit(ctlW, filepath.Join(ctlDir, dnsserver.ControlFilePartialReload), op)
						case 3:
							ok = emit(ctlW, filepath.Join(ctlDir, "README"), op)
						default:
							ok = emit(ctlW, filepath.Join(ctlDir, dnsserver.ControlFileFullReload), op)
						}
						if ok {
							res.Fault("fs-event-spurious")
						}
					}
				})
			}
			if sc.WatchErrMs > 0 {
				s.Go("inotifyerr", true, func() {
					s.Sleep(time.Duration(sc.WatchErrMs) * time.Millisecond)
					fw, name := dbW, "watchdb"
					if sc.WatchErrOn == 1 {
						fw, name = ctlW, "watchctl"
					}
					watcherErrInjected[name] = true
					select {
					case fw.er <- errors.New("simulated inotify queue overflow"):
						res.Fault("watcher-error")
					case <-fw.gone:
					case <-quit:
					}
				})
			}
		}

		s.Go("operator", false, func() {
			// in proc mode the tickers of LogMapAge / DumpBackendStats (10 s) must fire at least once
			// after the last operation, shutdown included
			linger := func() {
				if sc.Proc {
					s.Sleep(10500 * time.Millisecond)
					s.Sleep(10500 * time.Millisecond)
				} else if viaChan {
					// what the reload loop, the periodic reloader and signal senders had in hand when the
					// operator finished (shutdown included) is carried out before the run is judged
					s.Sleep(700 * time.Millisecond)
					s.Sleep(700 * time.Millisecond)
				}
			}
			defer linger()
			prevPath := ""
			lastFailedFull := ""
			servedPath := p0
			for i, o := range sc.Ops {
				if o.SleepMs > 0 {
					s.Sleep(time.Duration(o.SleepMs) * time.Millisecond)
				} else {
					s.Y("operator.next")
				}
				rec := &OpRec{Idx: i, Op: o, Label: o.Label(sc.TimeoutMs)}
				h.Ops = append(h.Ops, rec)
				m.Context = fmt.Sprintf("%d:%s", i, rec.Label)
				switch o.Kind {
				case "jump":
					s.Sleep(time.Duration(o.JumpS) * time.Second)
					rec.Done = true
					res.Fault("clock-jump")
					continue
				case "close":
					if sc.Proc {
						if h.Closed {
							res.Probe("second_shutdown")
						}
						doShutdown(rec)
						return
					}
					closing = true
					s.Yield("close.drain", func() bool { return inflight == 0 })
					rec.Inv = s.Seq()
					fb.Close()
					rec.Ret = s.Seq()
					rec.Done = true
					h.Closed = true
					res.Fault("shutdown")
					return
				}
				if sc.Proc && h.Closed {
					// a watcher failed and shut the server down: nothing can be asked of it any more
					rec.Done = true
					rec.Err = errServerGone
					continue
				}
				g := 2 + i
				rec.Gen = g
				noKey := o.Fault == "nokey"
				var sig dnsserver.ReloadSignal
				served := servedPath // what the harness knows was last switched to, not what the server believes
				var perr error
				if o.Full && o.Fault == "" && o.SamePath == 1 && lastFailedFull != "" {
					// retry the switch that failed: the same path, now holding a valid generation
					p := lastFailedFull
					_ = os.RemoveAll(p)
					perr = w.create(p, g, false)
					rec.Path = p
					sig = *dnsserver.NewFullReloadSignal(p)
					res.Probe("full_reload_retried_to_same_path")
				} else if o.Full && o.Fault == "" && o.SamePath == 2 {
					// a full reload naming the path that is already served
					perr = w.update(served, g, false)
					rec.Path = served
					sig = *dnsserver.NewFullReloadSignal(served)
					res.Probe("full_reload_to_served_path")
				} else if o.Full {
					p := w.fresh("db")
					switch o.Fault {
					case "missing":
					case "garbage":
						if sc.Backend == "cdb" {
							perr = os.WriteFile(p, []byte("this is not a constant database"), 0o644)
						} else {
							perr = os.MkdirAll(p, 0o755)
							if perr == nil {
								perr = os.WriteFile(filepath.Join(p, "CURRENT"), []byte("MANIFEST-999999\n"), 0o644)
							}
						}
					default:
						perr = w.create(p, g, noKey)
					}
					rec.Path = p
					sig = *dnsserver.NewFullReloadSignal(p)
				} else {
					rec.Path = served
					switch o.Fault {
					case "missing":
						if sc.Backend == "cdb" {
							if perr = os.Remove(served); os.IsNotExist(perr) {
								perr = nil
							}
						}
					case "garbage":
						if sc.Backend == "cdb" {
							tmp := w.fresh("tmp")
							perr = os.WriteFile(tmp, []byte("this is not a constant database"), 0o644)
							if perr == nil {
								perr = os.Rename(tmp, served)
							}
						}
					default:
						perr = w.update(served, g, noKey)
					}
					sig = *dnsserver.NewPartialReloadSignal()
				}
				if perr != nil {
					res.HarnessErr = fmt.Sprintf("publish for op %d (%s): %v", i, rec.Label, perr)
					return
				}
				rec.Pub = s.Seq()
				plan := mon.ReloadPlan{Fail: o.Fault == "inject", FailLow: o.Fault == "lowio"}
				if o.Low && !o.Full && sc.Backend != "cdb" {
					plan.SlowLow = time.Duration(o.DelayMs) * time.Millisecond
					if o.DelayMs > 0 {
						res.Probe("catch_up_slow_inside_the_store")
					}
				} else if o.After {
					plan.DelayAfter = time.Duration(o.DelayMs) * time.Millisecond
				} else {
					plan.DelayBefore = time.Duration(o.DelayMs) * time.Millisecond
				}
				m.PlanNext(plan, m.Context)
				res.Config("reload:" + rec.Label)
				okBefore := rst.get("DNS_db.reload")
				toBefore, vkBefore := rst.get("DNS_db.ErrReloadTimeout"), rst.get("DNS_db.ErrValidationKeyNotFound")
				rec.Inv = s.Seq()
				if viaChan {
					before := m.Reloads
					rounds := 10000
					if sc.Proc {
						// the request travels as the operator's tooling sends it: a control file written
						// atomically plus the event inotify reports for it, an event for the database path, or SIGHUP
						rounds = 30
						sent := false
						switch {
						case o.Full:
							tmp := filepath.Join(ctlDir, "."+dnsserver.ControlFileFullReload)
							ctl := filepath.Join(ctlDir, dnsserver.ControlFileFullReload)
							if perr = os.WriteFile(tmp, []byte(sig.Payload+"\n"), 0o644); perr == nil {
								perr = os.Rename(tmp, ctl)
							}
							sent = emit(ctlW, ctl, fsnotify.Create)
							res.Probe("reload_requested_by_switchdb_file")
						case o.Via%3 == 1:
							ctl := filepath.Join(ctlDir, dnsserver.ControlFilePartialReload)
							perr = os.WriteFile(ctl, nil, 0o644)
							sent = emit(ctlW, ctl, fsnotify.Create)
							res.Probe("reload_requested_by_reload_file")
						case o.Via%3 == 2:
							select {
							case hup <- struct{}{}:
								sent = true
								res.Probe("reload_requested_by_sighup")
							case <-quit:
							}
						default:
							first := fsnotify.Create
							if sc.Backend != "cdb" {
								first = fsnotify.Chmod // a directory that was touched
							}
							sent = emit(dbW, served, first)
							for d := 0; sent && d < o.EvDup; d++ {
								emit(dbW, served, []fsnotify.Op{fsnotify.Write, fsnotify.Chmod}[d%2])
							}
							res.Probe("reload_requested_by_db_event")
						}
						if perr != nil {
							res.HarnessErr = fmt.Sprintf("control file for op %d: %v", i, perr)
							return
						}
						if !sent {
							rounds = 0
						}
					} else {
						fb.ReloadChan <- sig
					}
					s.Y("operator.sent")
					for k := 0; k < rounds && !(m.Reloads > before && fb.VerifIdle()) && !(sc.Proc && h.Closed); k++ {
						s.Sleep(time.Duration(sc.TimeoutMs+211) * time.Millisecond)
					}
					// the outcome is the server's own success counter
					rec.OK = rst.get("DNS_db.reload") > okBefore
					if o.Full && fb.VerifDBPath() != rec.Path {
						rec.OK = false // the success counted was somebody else's (a periodic partial reload)
					}
					switch {
					case rec.OK:
					case rst.get("DNS_db.ErrReloadTimeout") > toBefore:
						rec.Err = db.ErrReloadTimeout
					case rst.get("DNS_db.ErrValidationKeyNotFound") > vkBefore:
						rec.Err = db.ErrValidationKeyNotFound
					default:
						rec.Err = errUnknownViaChan
					}
				} else {
					rec.Err = fb.Reload(sig)
					rec.OK = rec.Err == nil
					if sc.CleanupFails && errors.Is(rec.Err, syscall.ENOTDIR) {
						// everything but the removal of the control file succeeded: the switch has been made
						// (database, path, cache purge), only the acknowledgement failed. For the oracles this
						// reload has completed.
						rec.OK, rec.Err = true, nil
						res.Probe("reload_completed_but_cleanup_failed")
					}
				}
				rec.Ret = s.Seq()
				rec.Done = true
				res.Fault("reload:" + rec.Label)
				switch {
				case errors.Is(rec.Err, db.ErrReloadTimeout):
					res.Probe("reload_timed_out")
				case errors.Is(rec.Err, db.ErrValidationKeyNotFound):
					res.Probe("validation_failed")
				case rec.Err != nil && rec.Err != errUnknownViaChan:
					res.Probe("reload_error")
				case rec.Err == nil:
					res.Probe("reload_ok")
				}
				if rec.OK && o.Full && o.Decoy && prevPath != "" && prevPath != rec.Path {
					if _, ok := w.diskGen[prevPath]; ok {
						if err := w.update(prevPath, 900+i, false); err == nil {
							res.Probe("decoy_published")
						}
					}
				}
				if rec.OK && o.Full && rec.Path != served {
					prevPath = served
					servedPath = rec.Path
				}
				if o.Full {
					lastFailedFull = ""
					if !rec.OK && rec.Path != served {
						lastFailedFull = rec.Path
					}
				}
			}
		})

		h.RunErr = s.Run()
		res.FromSim(s)
		if m.LowFaults > 0 {
			res.Probe("lowlevel_catchup_failed")
		}
		if h.RunErr != nil {
			if errors.Is(h.RunErr, sched.ErrDeadlock) {
				res.Add("deadlock", "deadlock", h.RunErr.Error())
			} else {
				res.HarnessErr = h.RunErr.Error()
			}
		}
		for _, p := range s.Panics() {
			kind := "panic"
			res.Add(kind, "panic|"+panicClass(p), p)
		}
		// leave the bubble cleanly: stop everything the server started
		stop = true
		close(quit)
		s.Shutdown()
		s.Drain(2, time.Second)
		allDone := true
		for _, tk := range s.Tasks() {
			if !tk.Daemon && !tk.Finished() {
				allDone = false
			}
		}
		if !h.Closed && allDone {
			func() {
				defer func() { _ = recover() }()
				fb.Close()
			}()
		}
		if sc.Proc {
			s.Freeze() // LogMapAge and DumpBackendStats loop on tickers nobody can stop
		}
	})
	return h
}

var errUnknownViaChan = errors.New("outcome not observable through ReloadChan")
var errServerGone = errors.New("the server had been shut down by a failed watcher")

func panicClass(p string) string {
	switch {
	case strings.Contains(p, "send on closed channel"):
		return "send-on-closed-channel"
	case strings.Contains(p, "close of closed channel"):
		return "close-of-closed-channel"
	case strings.Contains(p, "nil pointer"):
		return "nil-pointer"
	}
	return "other"
}

// ---- drawing ---------------------------------------------------------------------------------

type srvDrawOpts struct {
	backends   []string
	maxClients int
	maxQueries int
	maxOps     int
	faults     []string
	cache      bool
	jumps      bool
	closeOp    bool
	periodic   bool
	signals    bool
	stats      bool
	ecs        bool
	badvers    bool
	proc       int // one run in proc is a proc-mode run (0 = never)
	cleanup    bool
	// cleanupDirect: as cleanup, but only in runs whose operator calls Reload itself, so that the
	// error it returns can be told from any other (checks that judge generations)
	cleanupDirect bool
}

func drawSrv(rt *rapid.T, o srvDrawOpts) SrvScenario {
	if v := os.Getenv("VERIF_BACKENDS"); v != "" {
		o.backends = strings.Split(v, ",")
	}
	sc := SrvScenario{
		Backend:   rapid.SampledFrom(o.backends).Draw(rt, "backend"),
		TimeoutMs: 50,
		Calm:      rapid.IntRange(0, 2).Draw(rt, "calm"),
		TapeSeed:  rapid.Uint64().Draw(rt, "tape_seed"),
	}
	if o.cache {
		sc.Cache = true
		sc.LRUSize = rapid.SampledFrom([]int{1, 2, 3, 1024}).Draw(rt, "lru")
		sc.WRSTimeout = rapid.SampledFrom([]int{0, 0, 5}).Draw(rt, "wrs")
	}
	backend := sc.Backend
	genQuery := rapid.Custom(func(rt *rapid.T) SrvQuery {
		q := SrvQuery{
			Q:       rapid.IntRange(0, len(gen.Queries)-1).Draw(rt, "q"),
			Client:  rapid.IntRange(0, len(gen.Clients)-1).Draw(rt, "client"),
			EDNS:    rapid.Bool().Draw(rt, "edns"),
			SleepMs: rapid.SampledFrom([]int{0, 0, 0, 3, 19, 41, 83}).Draw(rt, "qsleep"),
		}
		if o.ecs && rapid.IntRange(0, 3).Draw(rt, "has_ecs") == 0 {
			q.ECS = rapid.IntRange(1, len(srvECS)).Draw(rt, "ecs")
		}
		if o.badvers && rapid.IntRange(0, 11).Draw(rt, "badvers") == 0 {
			q.BadVers = true
		}
		if o.ecs && q.EDNS && !q.BadVers && rapid.IntRange(0, 3).Draw(rt, "edns_opt") == 0 {
			q.Opt = rapid.IntRange(1, 3).Draw(rt, "opt")
		}
		if o.ecs && rapid.IntRange(0, 3).Draw(rt, "hdr_bits") == 0 {
			q.Hdr = rapid.IntRange(1, 3).Draw(rt, "hdr")
		}
		return q
	})
	sc.Clients = rapid.SliceOfN(rapid.SliceOfN(genQuery, 1, o.maxQueries), 1, o.maxClients).Draw(rt, "clients")
	genOp := rapid.Custom(func(rt *rapid.T) SrvOp {
		op := SrvOp{Kind: "reload"}
		if o.jumps && rapid.IntRange(0, 4).Draw(rt, "is_jump") == 0 {
			return SrvOp{Kind: "jump", JumpS: rapid.SampledFrom([]int{1, 4, 6, 999, 1001}).Draw(rt, "jump_s")}
		}
		op.Full = rapid.Bool().Draw(rt, "full")
		if rapid.IntRange(0, 2).Draw(rt, "faulty") == 0 && len(o.faults) > 0 {
			op.Fault = rapid.SampledFrom(o.faults).Draw(rt, "fault")
		}
		if backend != "cdb" && !op.Full && (op.Fault == "missing" || op.Fault == "garbage") {
			op.Fault = "inject" // a RocksDB directory in use cannot be removed or trashed meaningfully
		}
		if op.Fault == "lowio" && (backend == "cdb" || op.Full) {
			op.Fault = "inject" // only a RocksDB catch-up has a low-level call to fail
		}
		op.DelayMs = rapid.SampledFrom([]int{0, 0, 0, 0, 7, 23, 61, 97}).Draw(rt, "delay")
		op.After = rapid.Bool().Draw(rt, "after")
		op.Low = backend != "cdb" && !op.Full && rapid.IntRange(0, 2).Draw(rt, "low") == 0
		op.Decoy = op.Full && rapid.Bool().Draw(rt, "decoy")
		if op.Full && op.Fault == "" {
			op.SamePath = rapid.SampledFrom([]int{0, 0, 0, 1, 1, 2}).Draw(rt, "same_path")
		}
		op.SleepMs = rapid.SampledFrom([]int{0, 0, 5, 31, 59}).Draw(rt, "osleep")
		return op
	})
	sc.Ops = rapid.SliceOfN(genOp, 0, o.maxOps).Draw(rt, "ops")
	if o.closeOp && rapid.IntRange(0, 1).Draw(rt, "has_close") == 0 {
		pos := rapid.IntRange(0, len(sc.Ops)).Draw(rt, "close_at")
		ops := append([]SrvOp{}, sc.Ops[:pos]...)
		ops = append(ops, SrvOp{Kind: "close"})
		sc.Ops = ops
	}
	sc.ViaChan = rapid.IntRange(0, 3).Draw(rt, "via_chan") == 3
	if o.periodic && rapid.IntRange(0, 2).Draw(rt, "periodic") == 2 {
		sc.ViaChan = true
		sc.PeriodicS = rapid.SampledFrom([]int{1, 2, 7}).Draw(rt, "periodic_s")
	}
	if o.signals && rapid.IntRange(0, 1).Draw(rt, "signals") == 1 {
		sc.ViaChan = true
		sc.Signals = rapid.SliceOfN(rapid.SampledFrom([]int{0, 0, 1, 7, 31, 59, 211, 997}), 1, 5).Draw(rt, "signal_pauses")
	}
	if o.stats && rapid.IntRange(0, 2).Draw(rt, "stats") == 2 {
		sc.StatsEvery = rapid.SampledFrom([]int{13, 47, 103}).Draw(rt, "stats_every")
	}
	if o.proc > 0 && rapid.IntRange(1, o.proc).Draw(rt, "proc") == 1 {
		sc.Proc = true
		sc.ViaChan = true
		for i := range sc.Ops {
			if sc.Ops[i].Kind != "reload" {
				continue
			}
			sc.Ops[i].Via = rapid.IntRange(0, 2).Draw(rt, "via")
			if o.signals {
				sc.Ops[i].EvDup = rapid.SampledFrom([]int{0, 0, 1, 2}).Draw(rt, "ev_dup")
			}
		}
		if o.signals && rapid.Bool().Draw(rt, "fs_noise") {
			sc.FsNoise = rapid.SliceOfN(rapid.Custom(func(rt *rapid.T) FsEv {
				return FsEv{PauseMs: rapid.SampledFrom([]int{0, 0, 3, 29, 71, 503, 2003}).Draw(rt, "pause"),
					Target: rapid.SampledFrom([]int{0, 0, 1, 2, 3, 3, 4}).Draw(rt, "target"), Op: rapid.IntRange(0, len(fsOps)-1).Draw(rt, "op")}
			}), 1, 6).Draw(rt, "noise")
		}
		if o.signals && o.closeOp && rapid.IntRange(0, 3).Draw(rt, "watch_err") == 0 {
			sc.WatchErrMs = rapid.SampledFrom([]int{1, 37, 113, 1009, 5003}).Draw(rt, "watch_err_ms")
			sc.WatchErrOn = rapid.IntRange(0, 1).Draw(rt, "watch_err_on")
		}
	}
	if rapid.Bool().Draw(rt, "stalls") {
		sc.Stalls = rapid.SliceOfN(rapid.Custom(func(rt *rapid.T) SrvStall {
			return SrvStall{Client: rapid.IntRange(0, len(sc.Clients)-1).Draw(rt, "client"), Query: rapid.IntRange(0, 2).Draw(rt, "query"),
				Point: rapid.IntRange(0, len(srvStallPoints)-1).Draw(rt, "point"), Ms: rapid.SampledFrom([]int{9, 37, 73, 311}).Draw(rt, "ms")}
		}), 1, 3).Draw(rt, "stall_list")
	}
	if o.cleanup && rapid.IntRange(0, 5).Draw(rt, "cleanup_fails") == 0 {
		sc.CleanupFails = true
	}
	if o.cleanupDirect && !sc.ViaChan && !sc.Proc && rapid.IntRange(0, 5).Draw(rt, "cleanup_fails") == 0 {
		sc.CleanupFails = true
	}
	sc.Tape = rapid.SliceOfN(rapid.Uint8(), 0, 160).Draw(rt, "tape")
	return sc
}

func summarySrv(sc SrvScenario) interface{} {
	var ops []string
	for _, o := range sc.Ops {
		ops = append(ops, o.Label(sc.TimeoutMs))
	}
	var cl []string
	for _, qs := range sc.Clients {
		var s []string
		for _, q := range qs {
			qq := gen.Queries[q.Q%len(gen.Queries)]
			s = append(s, fmt.Sprintf("%s/%s@%s", qq.Name, dns.TypeToString[qq.Type], gen.Clients[q.Client%len(gen.Clients)]))
		}
		cl = append(cl, strings.Join(s, " "))
	}
	return map[string]interface{}{"backend": sc.Backend, "cache": sc.Cache, "lru": sc.LRUSize, "operator": ops, "clients": cl,
		"via_chan": sc.ViaChan, "stalled_queries": len(sc.Stalls), "proc": sc.Proc, "cleanup_fails": sc.CleanupFails, "fs_noise": len(sc.FsNoise), "watch_err_ms": sc.WatchErrMs, "periodic_s": sc.PeriodicS, "async_signals": len(sc.Signals), "tape_len": len(sc.Tape)}
}
