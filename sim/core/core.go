// Package core is the per-worker exploration loop shared by all checks: seeds, budget, rapid
// as the sole choice source, known-finding matching, replay files and worker statistics.
package core

import (
	"encoding/json"
	"flag"
	"fmt"
	"os"
	"path/filepath"
	"sort"
	"strconv"
	"strings"
	"testing"
	"time"

	"pgregory.net/rapid"

	"dsim/gen"
	"dsim/sched"
)

// Result is the outcome of one simulated run.
type Result struct {
	// Violations found in this run: each has a Kind (violation class, stable under shrinking),
	// a Signature (kind + discriminating facts, matched against known_findings.jsonl) and Detail.
	Violations []Violation `json:"violations,omitempty"`
	// HarnessErr is trouble of the machinery itself (never a violation).
	HarnessErr string `json:"harness_err,omitempty"`

	TraceHash  string         `json:"trace_hash"`
	Nontrivial bool           `json:"nontrivial"`
	Steps      int            `json:"steps"`
	Switches   int            `json:"switches"`
	Advances   int            `json:"advances"`
	SimTime    time.Duration  `json:"sim_time_ns"`
	Faults     map[string]int `json:"faults,omitempty"` // fault kind -> times it actually fired
	Configured map[string]int `json:"configured,omitempty"`
	Probes     map[string]int `json:"probes,omitempty"`
	Pairs      map[string]int `json:"-"`
	Cover      map[string]int `json:"-"`                    // check-specific coverage items (only their number is reported)
	Population string         `json:"population,omitempty"` // e.g. "fault-free" / "faults"
	Schedule   []sched.Step   `json:"schedule,omitempty"`
	Log        []string       `json:"log,omitempty"`
	Summary    interface{}    `json:"summary,omitempty"` // short human-readable form of the scenario
}

// Violation is one property violation.
type Violation struct {
	Kind      string `json:"kind"`
	Signature string `json:"signature"`
	Detail    string `json:"detail"`
}

// Add appends a violation.
func (r *Result) Add(kind, signature, detail string) {
	r.Violations = append(r.Violations, Violation{kind, signature, detail})
}

// Fault counts a fired fault.
func (r *Result) Fault(kind string) {
	if r.Faults == nil {
		r.Faults = map[string]int{}
	}
	r.Faults[kind]++
}

// Config counts a configured fault.
func (r *Result) Config(kind string) {
	if r.Configured == nil {
		r.Configured = map[string]int{}
	}
	r.Configured[kind]++
}

// Probe counts a "rare condition reached" probe.
func (r *Result) Probe(name string) {
	if r.Probes == nil {
		r.Probes = map[string]int{}
	}
	r.Probes[name]++
}

// FromSim copies the scheduler statistics.
func (r *Result) FromSim(s *sched.Sim) {
	r.TraceHash = s.TraceHash()
	r.Steps = s.Steps
	r.Switches = s.Switches
	r.Advances = s.Advances
	r.SimTime = s.Now()
	r.Pairs = s.PairCover
	r.Schedule = s.Schedule
	if len(s.Log) > 0 {
		r.Log = s.Log
	}
}

// Known is one line of known_findings.jsonl.
type Known struct {
	Property    string `json:"property"`
	Status      string `json:"status"` // "known" or "fixed"
	Signature   string `json:"signature"`
	Description string `json:"description"`
	Commit      string `json:"commit,omitempty"`
}

// Replay is the replay file.
type Replay struct {
	Property  string          `json:"property"`
	Seed      uint64          `json:"seed"`
	Worker    int             `json:"worker"`
	BatchSeed uint64          `json:"batch_seed"`
	Kind      string          `json:"violation_kind"`
	Signature string          `json:"violation_signature"`
	Detail    string          `json:"violation_detail"`
	TraceHash string          `json:"trace_hash"`
	Scenario  json.RawMessage `json:"scenario"`
	Schedule  []sched.Step    `json:"schedule,omitempty"`
	Log       []string        `json:"log,omitempty"`
	Faults    map[string]int  `json:"faults_fired,omitempty"`
	// The scenario as first found, before minimisation, and the scenarios the worker process had run
	// before it. They matter when the code under test keeps state between runs (a package-level
	// pool or cache): the minimised scenario then fails only in the process that found it, and the
	// replay falls back to "first" and then to "history + first" (ReplayMode, set by the driver
	// once it knows which one reproduces in a fresh process).
	First          json.RawMessage   `json:"first_scenario,omitempty"`
	FirstTraceHash string            `json:"first_trace_hash,omitempty"`
	History        []json.RawMessage `json:"history,omitempty"`
	ReplayMode     string            `json:"replay_mode,omitempty"` // "", "first", "history"
}

// Stats is what one worker reports.
type Stats struct {
	Property     string            `json:"property"`
	Worker       int               `json:"worker"`
	Seed         uint64            `json:"seed"`
	Runs         int               `json:"runs"`
	ShrinkRuns   int               `json:"shrink_runs"`
	Nontrivial   int               `json:"nontrivial_runs"`
	Steps        int               `json:"steps"`
	Switches     int               `json:"switches"`
	Advances     int               `json:"advances"`
	SimSeconds   float64           `json:"simulated_seconds"`
	WallS        float64           `json:"wall_s"`
	Faults       map[string]int    `json:"faults_fired"`
	Configured   map[string]int    `json:"faults_configured"`
	Probes       map[string]int    `json:"probes"`
	Pairs        map[string]int    `json:"switch_pairs"`
	Cover        map[string]int    `json:"cover_items"`
	Populations  map[string]int    `json:"populations"`
	KnownHits    map[string]int    `json:"known_hits"`
	KnownReplay  map[string]string `json:"known_replay"`
	Violation    *Replay           `json:"violation,omitempty"`
	ReplayPath   string            `json:"replay_path,omitempty"`
	HarnessErrs  []string          `json:"harness_errors,omitempty"`
	Samples      []interface{}     `json:"samples"`
	BatchSeeds   []uint64          `json:"batch_seeds"`
	Leaked       uint64            `json:"leaked_bubbles"`
	Inconclusive int               `json:"inconclusive"`
	Extra        map[string]int    `json:"extra,omitempty"`
}

// Env is the worker configuration from the environment.
type Env struct {
	Seed    uint64
	Worker  int
	BudgetS float64
	OutDir  string
	Tier    string
	Known   map[string]Known
	Replay  string
}

// GetEnv reads VERIF_* variables.
func GetEnv(property string) Env {
	e := Env{Seed: 1, BudgetS: 10, Tier: "quick", Known: map[string]Known{}}
	if v := os.Getenv("VERIF_SEED"); v != "" {
		e.Seed, _ = strconv.ParseUint(v, 10, 64)
	}
	if v := os.Getenv("VERIF_WORKER"); v != "" {
		e.Worker, _ = strconv.Atoi(v)
	}
	if v := os.Getenv("VERIF_BUDGET_S"); v != "" {
		e.BudgetS, _ = strconv.ParseFloat(v, 64)
	}
	if v := os.Getenv("VERIF_TIER"); v != "" {
		e.Tier = v
	}
	e.OutDir = os.Getenv("VERIF_OUT")
	if e.OutDir == "" {
		e.OutDir = os.TempDir()
	}
	e.Replay = os.Getenv("VERIF_REPLAY")
	if f := os.Getenv("VERIF_KNOWN"); f != "" {
		if data, err := os.ReadFile(f); err == nil {
			for _, line := range strings.Split(string(data), "\n") {
				line = strings.TrimSpace(line)
				if line == "" {
					continue
				}
				var k Known
				if json.Unmarshal([]byte(line), &k) == nil && k.Property == property && k.Status == "known" {
					e.Known[k.Signature] = k
				}
			}
		}
	}
	return e
}

// SplitMix derives independent seeds.
func SplitMix(x uint64) uint64 {
	x += 0x9e3779b97f4a7c15
	z := x
	z = (z ^ (z >> 30)) * 0xbf58476d1ce4e5b9
	z = (z ^ (z >> 27)) * 0x94d049bb133111eb
	return z ^ (z >> 31)
}

type shimTB struct {
	name   string
	failed bool
	msgs   []string
}

func (s *shimTB) Helper()                       {}
func (s *shimTB) Name() string                  { return s.name }
func (s *shimTB) Logf(format string, a ...any)  {}
func (s *shimTB) Log(a ...any)                  {}
func (s *shimTB) Skipf(format string, a ...any) {}
func (s *shimTB) Skip(a ...any)                 {}
func (s *shimTB) SkipNow()                      {}
func (s *shimTB) Errorf(format string, a ...any) {
	s.failed = true
	s.msgs = append(s.msgs, fmt.Sprintf(format, a...))
}
func (s *shimTB) Error(a ...any)                 { s.failed = true; s.msgs = append(s.msgs, fmt.Sprint(a...)) }
func (s *shimTB) Fatalf(format string, a ...any) { s.Errorf(format, a...) }
func (s *shimTB) Fatal(a ...any)                 { s.Error(a...) }
func (s *shimTB) FailNow()                       { s.failed = true }
func (s *shimTB) Fail()                          { s.failed = true }
func (s *shimTB) Failed() bool                   { return s.failed }

// Check describes one property check to the exploration loop.
type Check[S any] struct {
	Property string
	Draw     func(t *rapid.T, tier string) S
	Run      func(t *testing.T, sc S, keepSchedule bool) *Result
	Summary  func(sc S) interface{} // short form of the scenario for evidence samples
	Batch    int                    // rapid checks per batch (default 50)
}

func merge(dst map[string]int, src map[string]int) {
	for k, v := range src {
		dst[k] += v
	}
}

// Explore runs the check until the budget is used up or an unknown violation is found, then
// writes <out>/worker-<n>.json and <out>/hashes-<n>.txt.
func Explore[S any](t *testing.T, c Check[S]) {
	env := GetEnv(c.Property)
	if env.Replay != "" {
		DoReplay(t, c, env)
		return
	}
	if c.Batch == 0 {
		c.Batch = 50
	}
	sched.StartWatchdog(900*time.Second, func() string { return c.Property })
	gen.Progress = func() { sched.Heartbeat.Add(1) }
	st := &Stats{Property: c.Property, Worker: env.Worker, Seed: env.Seed,
		Faults: map[string]int{}, Configured: map[string]int{}, Probes: map[string]int{}, Pairs: map[string]int{},
		Populations: map[string]int{}, KnownHits: map[string]int{}, KnownReplay: map[string]string{}, Extra: map[string]int{}, Cover: map[string]int{}}
	hashes := map[string]struct{}{}
	start := time.Now()
	deadline := start.Add(time.Duration(env.BudgetS * float64(time.Second)))
	workerSeed := SplitMix(env.Seed*1000003 + uint64(env.Worker))
	_ = flag.Set("rapid.nofailfile", "true")
	_ = flag.Set("rapid.checks", strconv.Itoa(c.Batch))
	shrinkS := 20.0
	if env.Tier == "thorough" {
		shrinkS = 60
	}
	_ = flag.Set("rapid.shrinktime", fmt.Sprintf("%gs", shrinkS))
	replayPath := filepath.Join(env.OutDir, fmt.Sprintf("%s-%d-w%d.json", c.Property, env.Seed, env.Worker))

	oneBatch := os.Getenv("VERIF_ONE_BATCH") != ""
	if oneBatch {
		deadline = start.Add(time.Hour)
	}
	var dumpRuns *os.File
	if os.Getenv("VERIF_DUMP_RUNS") != "" {
		dumpRuns, _ = os.Create(filepath.Join(env.OutDir, fmt.Sprintf("runs-%d.txt", env.Worker)))
		defer dumpRuns.Close()
	}
	var target string // violation kind being shrunk
	var journal []json.RawMessage
	journalBytes := 0
	var firstRaw json.RawMessage
	var firstHash string
	for batch := 0; time.Now().Before(deadline) && st.Violation == nil && !(oneBatch && batch > 0); batch++ {
		batchSeed := SplitMix(workerSeed+uint64(batch)) | 1
		if v := os.Getenv("VERIF_BATCH_SEED"); v != "" && oneBatch {
			batchSeed, _ = strconv.ParseUint(v, 10, 64) // re-run one batch rapid complained about
		}
		_ = flag.Set("rapid.seed", strconv.FormatUint(batchSeed, 10))
		if len(st.BatchSeeds) < 8 {
			st.BatchSeeds = append(st.BatchSeeds, batchSeed)
		}
		tb := &shimTB{name: c.Property}
		failing := false
		rapid.Check(tb, func(rt *rapid.T) {
			if !failing && !time.Now().Before(deadline) {
				return // budget used up: remaining iterations of this batch are no-ops
			}
			sc := c.Draw(rt, env.Tier)
			if !failing && journalBytes < 6<<20 {
				raw, _ := json.Marshal(sc)
				journal = append(journal, raw)
				journalBytes += len(raw)
			}
			sched.Heartbeat.Add(1) // checks without a scheduler (C16, parts of C07/C08/C09) make progress run by run
			res := c.Run(t, sc, failing)
			sched.Heartbeat.Add(1)
			if be := sched.TakeBubbleError(); be != "" && res.HarnessErr == "" {
				res.HarnessErr = "bubble root goroutine blocked for good after the run: " + be
				if len(res.HarnessErr) > 6000 {
					res.HarnessErr = res.HarnessErr[:6000]
				}
			}
			if dumpRuns != nil && !failing {
				raw, _ := json.Marshal(sc)
				fmt.Fprintf(dumpRuns, "%d %s steps=%d %016x %s\n", st.Runs, res.TraceHash, res.Steps, hashString(string(raw)), raw)
			}
			if failing {
				st.ShrinkRuns++
			} else {
				st.Runs++
				st.Steps += res.Steps
				st.Switches += res.Switches
				st.Advances += res.Advances
				st.SimSeconds += res.SimTime.Seconds()
				merge(st.Faults, res.Faults)
				merge(st.Configured, res.Configured)
				merge(st.Probes, res.Probes)
				merge(st.Pairs, res.Pairs)
				merge(st.Cover, res.Cover)
				if res.Population != "" {
					st.Populations[res.Population]++
				}
				if res.Nontrivial {
					st.Nontrivial++
					// all hashes up to a cap, then a fixed 1/64 sample (the reported distinct count is
					// then a lower bound)
					if len(hashes) < 100000 || hashString(res.TraceHash)%64 == 0 {
						hashes[res.TraceHash] = struct{}{}
					}
				}
				if len(st.Samples) < 3 && res.Nontrivial && c.Summary != nil {
					st.Samples = append(st.Samples, c.Summary(sc))
				}
			}
			if res.HarnessErr != "" {
				if len(st.HarnessErrs) < 5 {
					st.HarnessErrs = append(st.HarnessErrs, res.HarnessErr)
				}
				return
			}
			var unknown *Violation
			for i := range res.Violations {
				v := &res.Violations[i]
				if _, ok := env.Known[v.Signature]; ok {
					if !failing {
						st.KnownHits[v.Signature]++
						if _, have := st.KnownReplay[v.Signature]; !have {
							p := filepath.Join(env.OutDir, fmt.Sprintf("%s-known-%016x-w%d.json", c.Property, SplitMix(hashString(v.Signature)), env.Worker))
							res2 := c.Run(t, sc, true)
							writeReplay(p, c.Property, env, batchSeed, *v, res2, sc)
							st.KnownReplay[v.Signature] = p
						}
					}
					continue
				}
				if target == "" || v.Kind == target {
					if unknown == nil {
						unknown = v
					}
				}
			}
			if unknown == nil {
				return
			}
			if !failing {
				failing = true
				target = unknown.Kind
				firstRaw, _ = json.Marshal(sc)
				if len(journal) > 0 {
					journal = journal[:len(journal)-1] // the failing scenario itself
				}
				res = c.Run(t, sc, true) // same scenario again, now recording the schedule
				firstHash = res.TraceHash
				for i := range res.Violations {
					if res.Violations[i].Kind == target {
						unknown = &res.Violations[i]
					}
				}
			}
			rp := writeReplay(replayPath, c.Property, env, batchSeed, *unknown, res, sc)
			rp.First, rp.FirstTraceHash, rp.History = firstRaw, firstHash, journal
			writeJSON(replayPath, rp)
			st.Violation = &Replay{Property: rp.Property, Seed: rp.Seed, Worker: rp.Worker, Kind: rp.Kind, Signature: rp.Signature, Detail: rp.Detail, TraceHash: rp.TraceHash}
			st.ReplayPath = replayPath
			rt.Fatalf("violation %s", unknown.Kind)
		})
		if tb.failed && st.Violation == nil {
			// rapid reported a failure that is not one of ours: a panic inside the harness
			st.HarnessErrs = append(st.HarnessErrs, strings.Join(tb.msgs, " | "))
			break
		}
	}
	st.WallS = time.Since(start).Seconds()
	st.Leaked = sched.LeakedBubbles.Load()
	writeJSON(filepath.Join(env.OutDir, fmt.Sprintf("worker-%d.json", env.Worker)), st)
	hs := make([]string, 0, len(hashes))
	for h := range hashes {
		hs = append(hs, h)
	}
	sort.Strings(hs)
	_ = os.WriteFile(filepath.Join(env.OutDir, fmt.Sprintf("hashes-%d.txt", env.Worker)), []byte(strings.Join(hs, "\n")+"\n"), 0o644)
	if st.Violation != nil {
		t.Errorf("VIOLATION-CANDIDATE property=%s kind=%s replay=%s", c.Property, st.Violation.Kind, replayPath)
	}
}

func hashString(s string) uint64 {
	h := uint64(14695981039346656037)
	for i := 0; i < len(s); i++ {
		h ^= uint64(s[i])
		h *= 1099511628211
	}
	return h
}

func writeJSON(path string, v interface{}) {
	data, err := json.MarshalIndent(v, "", " ")
	if err != nil {
		panic(err)
	}
	tmp := path + ".tmp"
	if err := os.WriteFile(tmp, data, 0o644); err != nil {
		panic(err)
	}
	if err := os.Rename(tmp, path); err != nil {
		panic(err)
	}
}

func writeReplay[S any](path, property string, env Env, batchSeed uint64, v Violation, res *Result, sc S) *Replay {
	raw, err := json.Marshal(sc)
	if err != nil {
		panic(err)
	}
	rp := &Replay{Property: property, Seed: env.Seed, Worker: env.Worker, BatchSeed: batchSeed, Kind: v.Kind, Signature: v.Signature,
		Detail: v.Detail, TraceHash: res.TraceHash, Scenario: raw, Schedule: res.Schedule, Log: res.Log, Faults: res.Faults}
	writeJSON(path, rp)
	return rp
}

// DoReplay re-executes the scenario of a replay file and compares violation kind and trace hash.
func DoReplay[S any](t *testing.T, c Check[S], env Env) {
	data, err := os.ReadFile(env.Replay)
	if err != nil {
		fmt.Printf("REPLAY-ERROR cannot read %s: %v\n", env.Replay, err)
		t.FailNow()
	}
	var rp Replay
	if err := json.Unmarshal(data, &rp); err != nil {
		fmt.Printf("REPLAY-ERROR bad replay file: %v\n", err)
		t.FailNow()
	}
	if rp.Property != c.Property {
		return // replay file of another property
	}
	var sc S
	if err := json.Unmarshal(rp.Scenario, &sc); err != nil {
		fmt.Printf("REPLAY-ERROR bad scenario: %v\n", err)
		t.FailNow()
	}
	sched.StartWatchdog(300*time.Second, func() string { return "replay " + c.Property })
	mode := rp.ReplayMode
	if v := os.Getenv("VERIF_REPLAY_MODE"); v != "" {
		mode = v
	}
	want := rp.TraceHash
	if mode == "first" || mode == "history" {
		if len(rp.First) == 0 {
			fmt.Printf("REPLAY-NOT-REPRODUCED property=%s kind=%s (replay file has no first scenario for mode %s)\n", c.Property, rp.Kind, mode)
			return
		}
		if mode == "history" {
			for _, raw := range rp.History {
				var hs S
				if json.Unmarshal(raw, &hs) == nil {
					c.Run(t, hs, false) // verdicts of the earlier runs are not judged: they only rebuild the process state
					sched.Heartbeat.Add(1)
				}
			}
		}
		var fs S
		if err := json.Unmarshal(rp.First, &fs); err != nil {
			fmt.Printf("REPLAY-ERROR bad first scenario: %v\n", err)
			t.FailNow()
		}
		sc = fs
		want = rp.FirstTraceHash
	}
	res := c.Run(t, sc, true)
	rp.TraceHash = want
	found := false
	for _, v := range res.Violations {
		if v.Kind == rp.Kind {
			found = true
			fmt.Printf("REPLAY-VIOLATION property=%s kind=%s signature=%q detail=%q\n", c.Property, v.Kind, v.Signature, v.Detail)
			break
		}
	}
	hashOK := res.TraceHash == rp.TraceHash
	if os.Getenv("VERIF_REPLAY_VERBOSE") != "" {
		for _, s := range res.Schedule {
			fmt.Printf("  step %d %s @ %s\n", s.N, s.Task, s.Point)
		}
		for _, l := range res.Log {
			fmt.Printf("  log %s\n", l)
		}
	}
	switch {
	case found && hashOK:
		fmt.Printf("REPLAY-OK property=%s kind=%s trace_hash=%s\n", c.Property, rp.Kind, res.TraceHash)
	case found:
		fmt.Printf("REPLAY-SAME-VERDICT property=%s kind=%s trace_hash=%s expected=%s\n", c.Property, rp.Kind, res.TraceHash, rp.TraceHash)
	default:
		fmt.Printf("REPLAY-NOT-REPRODUCED property=%s kind=%s got=%v harness_err=%q\n", c.Property, rp.Kind, res.Violations, res.HarnessErr)
	}
}
