// Package dump reads whole compiled databases back as key -> multiset of values.
package dump

import (
	"fmt"
	"sort"
	"strings"

	cdb "github.com/repustate/go-cdb"

	rocksdb "github.com/facebookincubator/dns/dnsrocks/cgo-rocksdb"
	"github.com/facebookincubator/dns/dnsrocks/dnsdata/rdb"
)

// DB is a whole database: key -> sorted list of values.
type DB map[string][]string

// Add inserts one value.
func (d DB) Add(k, v []byte) { d[string(k)] = append(d[string(k)], string(v)) }

// Normalize sorts every value list and drops empty keys.
func (d DB) Normalize() DB {
	for k, v := range d {
		if len(v) == 0 {
			delete(d, k)
			continue
		}
		sort.Strings(v)
	}
	return d
}

// Count returns the number of keys and values.
func (d DB) Count() (keys, vals int) {
	for _, v := range d {
		vals += len(v)
	}
	return len(d), vals
}

// RDB dumps a RocksDB directory (opened read-only).
func RDB(path string) (DB, error) {
	opt := rocksdb.NewOptions()
	db, err := rocksdb.OpenDatabase(path, true, false, opt)
	if err != nil {
		opt.FreeOptions()
		return nil, err
	}
	defer db.CloseDatabase()
	return Handle(db)
}

// Handle dumps through an open low-level handle (what that handle itself sees, including writes
// that are still in its memtable only).
func Handle(db interface {
	CreateIterator(*rocksdb.ReadOptions) *rocksdb.Iterator
}) (DB, error) {
	ro := rocksdb.NewDefaultReadOptions()
	defer ro.FreeReadOptions()
	it := db.CreateIterator(ro)
	defer it.FreeIterator()
	out := DB{}
	for it.SeekToFirst(); it.IsValid(); it.Next() {
		k := append([]byte(nil), it.Key()...)
		data := append([]byte(nil), it.Value()...)
		if len(data) == 0 {
			out[string(k)] = append(out[string(k)], "<EMPTY-RAW-VALUE>")
		}
		for len(data) > 0 {
			chunk, rest, err := rdb.ReadNextChunk(data)
			if err != nil {
				return nil, fmt.Errorf("key %q: malformed value list: %v", k, err)
			}
			out.Add(k, chunk)
			data = rest
		}
	}
	if err := it.GetError(); err != nil {
		return nil, err
	}
	return out.Normalize(), nil
}

// CDB dumps a CDB file.
func CDB(path string) (DB, error) {
	c, err := cdb.Open(path)
	if err != nil {
		return nil, err
	}
	defer c.Close()
	out := DB{}
	err = c.ForEachKeys(func(_ uint32, key, value []byte) {
		out.Add(append([]byte(nil), key...), append([]byte(nil), value...))
	})
	if err != nil {
		return nil, err
	}
	return out.Normalize(), nil
}

// Diff describes the first few differences ("" = equal).
func Diff(got, want DB, gotName, wantName string) string {
	var keys []string
	seen := map[string]bool{}
	for k := range got {
		keys = append(keys, k)
		seen[k] = true
	}
	for k := range want {
		if !seen[k] {
			keys = append(keys, k)
		}
	}
	sort.Strings(keys)
	var out []string
	n := 0
	for _, k := range keys {
		a, b := got[k], want[k]
		if strings.Join(a, "\x00|") == strings.Join(b, "\x00|") && len(a) == len(b) {
			continue
		}
		n++
		if len(out) < 4 {
			out = append(out, fmt.Sprintf("key %q: %s has %d value(s) %q, %s has %d value(s) %q", k, gotName, len(a), clip(a), wantName, len(b), clip(b)))
		}
	}
	if n == 0 {
		return ""
	}
	return fmt.Sprintf("%d key(s) differ: %s", n, strings.Join(out, "; "))
}

func clip(v []string) []string {
	if len(v) > 4 {
		v = v[:4]
	}
	out := make([]string, len(v))
	for i, s := range v {
		if len(s) > 48 {
			s = s[:48] + "..."
		}
		out[i] = s
	}
	return out
}
