// Package gen produces generation-stamped data files, the queries used against them and the
// stamp extraction used by the reload/caching oracles, plus a per-process farm of compiled
// databases (compiled outside any bubble).
package gen

import (
	"bytes"
	"fmt"
	"net"
	"os"
	"path/filepath"
	"sort"
	"strings"
	"sync"

	"github.com/miekg/dns"

	"github.com/facebookincubator/dns/dnsrocks/dnsdata"
	dcdb "github.com/facebookincubator/dns/dnsrocks/dnsdata/cdb"
	"github.com/facebookincubator/dns/dnsrocks/dnsdata/rdb"
)

// TTLBase is added to the generation number to make the TTL of every record.
const TTLBase = 100000

// MapLinesFor returns the location map lines of generation g. The two located subnets swap
// their locations with the parity of g, so that a response whose location lookup and record
// lookups come from different generations is wrong even though all its records carry one stamp.
func MapLinesFor(g int) []string {
	a, b := `\000\002`, `\000\003`
	if g%2 == 1 {
		a, b = b, a
	}
	var l []string
	for _, m := range []string{`c\000`, "ec"} {
		l = append(l,
			`%\000\001,0.0.0.0/0,`+m,
			`%\000\001,::/0,`+m,
			`%`+a+`,10.1.0.0/16,`+m,
			`%`+b+`,10.2.0.0/16,`+m)
	}
	return append(l, `Mexample.com,c\000`, `M*.example.com,c\000`, `8example.com,ec`, `8*.example.com,ec`)
}

// ValidationName is the owner of the validation record.
const ValidationName = "valid.example.com"

// RecordLines returns the stamped record lines of generation g (no map lines).
func RecordLines(g int, noKey bool) []string {
	t := TTLBase + g
	ip := func(k int) string { return fmt.Sprintf("10.%d.%d.%d", (g>>8)&255, g&255, k) }
	ip6 := func(k int) string { return fmt.Sprintf("fd00::%x:%x", g, k) }
	l := []string{
		fmt.Sprintf("Zexample.com,a.ns.example.com,dns.example.com,%d,7200,1800,604800,%d,%d,,", g, t, t),
		fmt.Sprintf("&example.com,,a.ns.example.com,%d,,", t),
		fmt.Sprintf("&example.com,,b.ns.example.com,%d,,", t),
		fmt.Sprintf("+a.ns.example.com,%s,%d,,", ip(1), t),
		fmt.Sprintf("+b.ns.example.com,%s,%d,,", ip(2), t),
		fmt.Sprintf("+www.example.com,%s,%d,,", ip(3), t),
		fmt.Sprintf("+www.example.com,%s,%d,,", ip6(3), t),
		fmt.Sprintf("'txt.example.com,gen=%d,%d,,", g, t),
		fmt.Sprintf("@example.com,,mx.example.com,10,%d,,", t),
		fmt.Sprintf("+mx.example.com,%s,%d,,", ip(4), t),
		fmt.Sprintf("+mx.example.com,%s,%d,,", ip(24), t), // two A records: the MX query's additional section is a weighted selection
		fmt.Sprintf("+mx.example.com,%s,%d,,", ip6(4), t),
		fmt.Sprintf("Cwww2.example.com,www.example.com,%d,,", t),
		fmt.Sprintf("&sub.example.com,,ns.sub.example.com,%d,,", t),
		fmt.Sprintf("+ns.sub.example.com,%s,%d,,", ip(5), t),
		fmt.Sprintf("+*.wild.example.com,%s,%d,,", ip(6), t),
		fmt.Sprintf("+loc.example.com,%s,%d,,\\000\\002", ip(7), t),
		fmt.Sprintf("+loc.example.com,%s,%d,,\\000\\003", ip(8), t),
		fmt.Sprintf("+loc.example.com,%s,%d,,\\000\\001", ip(9), t),
		fmt.Sprintf("+wrr.example.com,%s,%d,,,1", ip(21), t),
		fmt.Sprintf("+wrr.example.com,%s,%d,,,2", ip(22), t),
		fmt.Sprintf("+wrr.example.com,%s,%d,,,3", ip(23), t),
	}
	for i := 0; i < 24; i++ {
		l = append(l, fmt.Sprintf("'big.example.com,gen=%d record %02d padded to make the set larger than one small UDP datagram,%d,,", g, i, t))
	}
	if !noKey {
		l = append(l, fmt.Sprintf("+%s,%s,%d,,", ValidationName, ip(10), t))
	}
	return l
}

// DataText is the whole data file of generation g.
func DataText(g int, noKey bool) string {
	return strings.Join(append(MapLinesFor(g), RecordLines(g, noKey)...), "\n") + "\n"
}

// Preprocess runs the repository's preprocessor (subnet lines become range-point lines) over a
// data file, as dnsrocks-preproc does before diffs are made.
func Preprocess(text string) []string {
	c := new(dnsdata.Codec)
	c.Serial = 1
	c.Acc.Ranger.Enable()
	c.Acc.NoPrefixSets = true
	c.NoRnetOutput = true
	var w bytes.Buffer
	if err := c.Preprocess(strings.NewReader(text), &w); err != nil {
		panic(fmt.Sprintf("preprocess: %v", err))
	}
	var out []string
	for _, l := range strings.Split(w.String(), "\n") {
		if l != "" {
			out = append(out, l)
		}
	}
	return out
}

// DiffText is the line diff (on preprocessed files) turning generation g1 into g2.
func DiffText(g1 int, noKey1 bool, g2 int, noKey2 bool) string {
	cnt := map[string]int{}
	for _, l := range Preprocess(DataText(g1, noKey1)) {
		cnt[l]--
	}
	for _, l := range Preprocess(DataText(g2, noKey2)) {
		cnt[l]++
	}
	keys := make([]string, 0, len(cnt))
	for k := range cnt {
		keys = append(keys, k)
	}
	sort.Strings(keys)
	var b strings.Builder
	for _, k := range keys {
		for n := cnt[k]; n < 0; n++ {
			b.WriteString("-" + k + "\n")
		}
		for n := cnt[k]; n > 0; n-- {
			b.WriteString("+" + k + "\n")
		}
	}
	return b.String()
}

// ValidationKey is the database key of the validation record for the given key layout.
func ValidationKey(v2 bool) []byte {
	c := new(dnsdata.Codec)
	c.Features.UseV2Keys = v2
	recs, err := c.ConvertLn([]byte(fmt.Sprintf("+%s,10.0.0.10,1,,", ValidationName)))
	if err != nil || len(recs) == 0 {
		panic(fmt.Sprintf("validation key: %v", err))
	}
	return recs[0].Key
}

// Q is one query shape.
type Q struct {
	Name  string
	Type  uint16
	Class uint16 // 0 = IN
}

// Queries is the fixed table of query shapes (all inside ordinary shapes, see DESIGN §8 C13).
var Queries = []Q{
	{"www.example.com.", dns.TypeA, 0},     // positive
	{"www.example.com.", dns.TypeAAAA, 0},  // positive v6
	{"example.com.", dns.TypeMX, 0},        // answer + additional
	{"example.com.", dns.TypeNS, 0},        // answer + glue
	{"example.com.", dns.TypeSOA, 0},       // SOA
	{"nothing.example.com.", dns.TypeA, 0}, // NXDOMAIN + SOA
	{"www.example.com.", dns.TypeTXT, 0},   // NODATA + SOA
	{"foo.sub.example.com.", dns.TypeA, 0}, // referral: NS + glue
	{"x.wild.example.com.", dns.TypeA, 0},  // wildcard
	{"www2.example.com.", dns.TypeA, 0},    // CNAME
	{"txt.example.com.", dns.TypeTXT, 0},   // TXT
	{"loc.example.com.", dns.TypeA, 0},     // location dependent
	{"outside.org.", dns.TypeA, 0},         // REFUSED (no stamp)
	{"WwW.ExAmPlE.CoM.", dns.TypeA, 0},     // mixed case
	{"example.com.", dns.TypeANY, 0},       // ANY at apex
	{"valid.example.com.", dns.TypeA, 0},   // validation record
	{"wrr.example.com.", dns.TypeA, 0},     // weighted: three candidates
	{"www.example.com.", dns.TypeA, 1001},  // unusual class (answered like IN)
	{"1www.example.com.", dns.TypeA, 100},  // NXDOMAIN; its cache key text collides with the previous entry's
	{"mx.example.com.", dns.TypeAAAA, 0},   // positive v6
	{"big.example.com.", dns.TypeTXT, 0},   // 24 TXT records: larger than 512 and 1232 bytes
	{"www.example.com.", dns.TypeCAA, 0},   // NODATA; type 257 = A (1) modulo 256
	{"example.com.", 65282, 0},             // NODATA; type 65282 = NS (2) modulo 256
	{"www.example.com.", dns.TypeA, 257},   // class 257 = IN (1) modulo 256
	{".", dns.TypeNS, 0},                   // the root name: REFUSED (no zone declares it)
	{".", dns.TypeTXT, 0},                  // the root name, a type the whoami handler synthesizes for its own domain
}

// BigQuery is the index of the query whose answer does not fit a small UDP buffer.
const BigQuery = 20

// Weighted tells whether the answer section of query shape qi is subject to weighted selection.
func Weighted(qi int) bool {
	q := Queries[qi%len(Queries)]
	return q.Name == "wrr.example.com." || (q.Name == "mx.example.com." && q.Type == dns.TypeA)
}

// WeightedExtra tells whether the additional section of query shape qi is subject to weighted
// selection (the MX target has two A records).
func WeightedExtra(qi int) bool {
	q := Queries[qi%len(Queries)]
	return q.Name == "example.com." && (q.Type == dns.TypeMX || q.Type == dns.TypeANY)
}

// Clients is the fixed table of client addresses: default location, location 2, location 3, IPv6.
var Clients = []string{"192.0.2.1", "10.1.2.3", "10.2.3.4", "2001:db8::1"}

// Stamps returns the set of generation stamps carried by the records of m (OPT excluded).
func Stamps(m *dns.Msg) map[int]int {
	out := map[int]int{}
	add := func(g int) { out[g]++ }
	for _, sec := range [][]dns.RR{m.Answer, m.Ns, m.Extra} {
		for _, rr := range sec {
			if rr.Header().Rrtype == dns.TypeOPT {
				continue
			}
			ttl := int(rr.Header().Ttl)
			if ttl >= TTLBase {
				add(ttl - TTLBase)
			} else {
				add(-1 - ttl) // a TTL that is not a stamped one: its own (negative) class
			}
			switch x := rr.(type) {
			case *dns.A:
				if ip := x.A.To4(); ip != nil && ip[0] == 10 {
					add(int(ip[1])<<8 | int(ip[2]))
				}
			case *dns.AAAA:
				ip := x.AAAA.To16()
				if ip != nil && ip[0] == 0xfd && ip[1] == 0 {
					add(int(ip[12])<<8 | int(ip[13]))
				}
			case *dns.TXT:
				for _, s := range x.Txt {
					var g int
					if _, err := fmt.Sscanf(s, "gen=%d", &g); err == nil {
						add(g)
					}
				}
			case *dns.SOA:
				add(int(x.Serial))
				if int(x.Minttl) >= TTLBase {
					add(int(x.Minttl) - TTLBase)
				}
			}
		}
	}
	return out
}

// MakeQuery builds the request for query shape qi from client ci.
func MakeQuery(qi int, edns bool, ecs string, id uint16) *dns.Msg {
	q := Queries[qi%len(Queries)]
	m := new(dns.Msg)
	m.SetQuestion(q.Name, q.Type)
	if q.Class != 0 {
		m.Question[0].Qclass = q.Class
	}
	m.Id = id
	if edns || ecs != "" {
		o := new(dns.OPT)
		o.Hdr.Name = "."
		o.Hdr.Rrtype = dns.TypeOPT
		o.SetUDPSize(4096)
		if ecs != "" {
			ip, ipnet, err := net.ParseCIDR(ecs)
			if err == nil {
				e := new(dns.EDNS0_SUBNET)
				e.Code = dns.EDNS0SUBNET
				ones, _ := ipnet.Mask.Size()
				e.SourceNetmask = uint8(ones)
				if ip4 := ip.To4(); ip4 != nil {
					e.Family = 1
					e.Address = ip4
				} else {
					e.Family = 2
					e.Address = ip
				}
				o.Option = append(o.Option, e)
			}
		}
		m.Extra = append(m.Extra, o)
	}
	return m
}

// ---- farm of compiled databases -----------------------------------------------------------

// Farm compiles each (generation, layout) once per process. Everything it returns is an
// immutable template: link or copy it before letting anything write to it.
type Farm struct {
	mu    sync.Mutex
	dir   string
	cache map[string]string
}

var (
	farmOnce sync.Once
	farm     *Farm
)

// Progress, when set, is called whenever the farm finished compiling something (keeps the
// real-clock watchdog quiet during long preparations on a loaded machine).
var Progress func()

func progress() {
	if Progress != nil {
		Progress()
	}
}

// TheFarm returns the process-wide farm, rooted in TMPDIR.
func TheFarm() *Farm {
	farmOnce.Do(func() {
		d, err := os.MkdirTemp("", "farm-")
		if err != nil {
			panic(err)
		}
		farm = &Farm{dir: d, cache: map[string]string{}}
	})
	return farm
}

func (f *Farm) text(g int, noKey bool) string {
	key := fmt.Sprintf("text-%d-%v", g, noKey)
	if p, ok := f.cache[key]; ok {
		return p
	}
	p := filepath.Join(f.dir, key+".in")
	if err := os.WriteFile(p, []byte(DataText(g, noKey)), 0o644); err != nil {
		panic(err)
	}
	f.cache[key] = p
	return p
}

// CDB returns the compiled CDB file of generation g.
func (f *Farm) CDB(g int, noKey bool) string {
	f.mu.Lock()
	defer f.mu.Unlock()
	key := fmt.Sprintf("cdb-%d-%v", g, noKey)
	if p, ok := f.cache[key]; ok {
		return p
	}
	in := f.text(g, noKey)
	p := filepath.Join(f.dir, key+".cdb")
	if _, err := dcdb.CreateCDB(in, p, &dcdb.CreatorOptions{NumCPU: 1}); err != nil {
		panic(fmt.Sprintf("compile cdb gen %d: %v", g, err))
	}
	progress()
	f.cache[key] = p
	return p
}

// RDB returns the compiled RocksDB directory of generation g.
func (f *Farm) RDB(g int, v2 bool, noKey bool) string {
	f.mu.Lock()
	defer f.mu.Unlock()
	key := fmt.Sprintf("rdb-%d-%v-%v", g, v2, noKey)
	if p, ok := f.cache[key]; ok {
		return p
	}
	in := f.text(g, noKey)
	p := filepath.Join(f.dir, key)
	if err := os.MkdirAll(p, 0o755); err != nil {
		panic(err)
	}
	opts := rdb.CompilationOptions{NumCPU: 1, UseV2KeySyntax: v2, UseBuilder: true}
	if _, err := rdb.CompileToSpecificRDBVersion(in, p, opts); err != nil {
		panic(fmt.Sprintf("compile rdb gen %d: %v", g, err))
	}
	progress()
	f.cache[key] = p
	return p
}

// Diff returns the path of the diff file g1 -> g2.
func (f *Farm) Diff(g1 int, noKey1 bool, g2 int, noKey2 bool) string {
	f.mu.Lock()
	defer f.mu.Unlock()
	key := fmt.Sprintf("diff-%d-%v-%d-%v", g1, noKey1, g2, noKey2)
	if p, ok := f.cache[key]; ok {
		return p
	}
	p := filepath.Join(f.dir, key+".diff")
	if err := os.WriteFile(p, []byte(DiffText(g1, noKey1, g2, noKey2)), 0o644); err != nil {
		panic(err)
	}
	f.cache[key] = p
	return p
}

// CopyDir copies a (flat) directory.
func CopyDir(src, dst string) error {
	if err := os.MkdirAll(dst, 0o755); err != nil {
		return err
	}
	ents, err := os.ReadDir(src)
	if err != nil {
		return err
	}
	for _, e := range ents {
		if e.IsDir() {
			continue
		}
		data, err := os.ReadFile(filepath.Join(src, e.Name()))
		if err != nil {
			return err
		}
		if err := os.WriteFile(filepath.Join(dst, e.Name()), data, 0o644); err != nil {
			return err
		}
	}
	return nil
}
