package gen

import (
	"fmt"
	"strings"
)

// Rng is a small deterministic generator (splitmix64).
type Rng struct{ x uint64 }

// NewRng seeds a generator.
func NewRng(seed uint64) *Rng { return &Rng{seed*0x9e3779b97f4a7c15 + 0x632be59bd9b4e019} }

// U64 returns the next value.
func (r *Rng) U64() uint64 {
	r.x += 0x9e3779b97f4a7c15
	z := r.x
	z = (z ^ (z >> 30)) * 0xbf58476d1ce4e5b9
	z = (z ^ (z >> 27)) * 0x94d049bb133111eb
	return z ^ (z >> 31)
}

// N returns a value in [0, n).
func (r *Rng) N(n int) int {
	if n <= 0 {
		return 0
	}
	return int(r.U64() % uint64(n))
}

// Pick returns one of the strings.
func (r *Rng) Pick(s ...string) string { return s[r.N(len(s))] }

// FileOpts controls RandomFile.
type FileOpts struct {
	Records int  // approximate number of record lines
	Nets    int  // number of subnet lines (0 = none)
	BadLine bool // include one line the codec rejects
	Tag     int  // makes rdata of different files differ
	// Stray adds lines that hold a single character (a record-type character or not, possibly after
	// blanks): every parser setting skips them like blank lines
	Stray bool
}

var locs = []string{"", "", "", `\000\001`, `\000\002`, `\000\003`, "l1", "l2"}
var maps = []string{`c\000`, "m1", "m2"}

// RandomFile produces a well-formed data file exercising every record type: many values per key
// (few owner names), locations, wildcards, several maps with non-conflicting subnets.
func RandomFile(seed uint64, o FileOpts) []string {
	r := NewRng(seed)
	var out []string
	zones := []string{"z0.test", "z1.test", "z2.example"}
	name := func() string {
		z := zones[r.N(len(zones))]
		switch r.N(6) {
		case 0:
			return z
		case 1:
			return "*.w." + z
		}
		return fmt.Sprintf("h%d.%s", r.N(12), z)
	}
	ttl := func() string { return r.Pick("", "60", "300", "3600", "86400") }
	loc := func() string { return locs[r.N(len(locs))] }
	ip4 := func() string { return fmt.Sprintf("192.0.%d.%d", (o.Tag+r.N(3))%256, r.N(256)) }
	ip6 := func() string { return fmt.Sprintf("2001:db8:%x::%x", o.Tag%65536, r.N(65536)) }
	for i, z := range zones {
		out = append(out, fmt.Sprintf("Z%s,a.ns.%s,dns.%s,%d,7200,1800,604800,120,120,,", z, z, z, 1000+o.Tag+i))
		out = append(out, fmt.Sprintf("&%s,,a.ns.%s,172800,,", z, z))
		out = append(out, fmt.Sprintf("M%s,%s", z, maps[i%len(maps)]))
		out = append(out, fmt.Sprintf("8%s,%s", z, maps[(i+1)%len(maps)]))
	}
	for i := 0; i < o.Records; i++ {
		n := name()
		switch r.N(20) {
		case 0, 1, 2, 3, 4, 5, 6:
			w := ""
			if r.N(3) == 0 {
				w = fmt.Sprint(r.N(5))
			}
			out = append(out, fmt.Sprintf("+%s,%s,%s,,%s,%s", n, r.Pick(ip4(), ip6()), ttl(), loc(), w))
		case 7:
			out = append(out, fmt.Sprintf("=%s,%s,%s,,%s", strings.TrimPrefix(n, "*.w."), r.Pick(ip4(), ip6()), ttl(), loc()))
		case 8:
			out = append(out, fmt.Sprintf("&sub%d.%s,%s,ns%d.%s,%s,,%s", r.N(3), zones[r.N(len(zones))], r.Pick("", ip4()), r.N(3), zones[r.N(len(zones))], ttl(), loc()))
		case 9:
			out = append(out, fmt.Sprintf("@%s,%s,mx%d.%s,%d,%s,,%s", n, r.Pick("", ip4()), r.N(3), zones[r.N(len(zones))], r.N(50), ttl(), loc()))
		case 10:
			out = append(out, fmt.Sprintf("C%s,target%d.%s,%s,,%s", n, r.N(4), zones[r.N(len(zones))], ttl(), loc()))
		case 11, 12:
			if r.N(4) == 0 {
				// trailing fields omitted, so the text is the last field of the line, and it ends in a blank
				// or a tab (white space at the end of a line belongs to the last field)
				out = append(out, fmt.Sprintf("'%s,text %d of tag %d ends in white space%s", n, r.N(1000), o.Tag, r.Pick(" ", "\t", "  ")))
				break
			}
			out = append(out, fmt.Sprintf("'%s,text %d of tag %d,%s,,%s", n, r.N(1000), o.Tag, ttl(), loc()))
		case 13:
			out = append(out, fmt.Sprintf("S%s,%s,srv%d.%s,%d,%d,%d,%s,,%s", n, r.Pick("", ip4()), r.N(3), zones[r.N(len(zones))], r.N(20), r.N(100), 1+r.N(65000), ttl(), loc()))
		case 14:
			out = append(out, fmt.Sprintf("^%d.%d.0.192.in-addr.arpa,host%d.%s,%s,,%s", r.N(256), o.Tag%256, r.N(10), zones[r.N(len(zones))], ttl(), loc()))
		case 15:
			if r.N(4) == 0 {
				out = append(out, fmt.Sprintf(":%s,%d,\\001\\002raw%d%s", n, 99+r.N(3), r.N(100), r.Pick(" ", "\t")))
				break
			}
			// generic records: type numbers without a mnemonic and, now and then, ones that have one
			// (TXT, SRV, HTTPS written in the generic form)
			gt := 99 + r.N(3)
			if r.N(3) == 0 {
				gt = []int{16, 33, 65, 12}[r.N(4)]
			}
			out = append(out, fmt.Sprintf(":%s,%d,\\001\\002raw%d,%s,,%s", n, gt, r.N(100), ttl(), loc()))
		case 16:
			out = append(out, fmt.Sprintf("H%s,%s,%s,%s,%d,alpn=h3|h2", n, r.Pick(".", "svc."+zones[0]), r.Pick("300", "7200"), r.Pick("", `\000\001`), 1+r.N(3)))
		case 17:
			out = append(out, fmt.Sprintf("B_%d._tcp.%s,svc%d.%s,300,%s,%d,port=%d", 1+r.N(9000), zones[r.N(len(zones))], r.N(3), zones[0], r.Pick("", `\000\002`), 1+r.N(3), 1+r.N(65000)))
		case 18:
			out = append(out, fmt.Sprintf(".dot%d.%s,%s,%s,%s,,%s", r.N(3), zones[r.N(len(zones))], r.Pick("", ip4()), r.Pick("a", "b", "ns.other.test"), ttl(), loc()))
		case 19:
			out = append(out, fmt.Sprintf("M%s,%s", n, maps[r.N(len(maps))]))
		}
	}
	// subnets: unique per (map, cidr), nested and adjacent, both families, default routes
	seen := map[string]bool{}
	for i := 0; i < o.Nets; i++ {
		m := maps[r.N(len(maps))]
		var cidr string
		switch r.N(8) {
		case 0:
			cidr = r.Pick("0.0.0.0/0", "::/0")
		case 1:
			cidr = fmt.Sprintf("10.%d.0.0/16", r.N(8))
		case 2, 3:
			cidr = fmt.Sprintf("10.%d.%d.0/24", r.N(8), r.N(16))
		case 4:
			cidr = fmt.Sprintf("10.%d.%d.%d/32", r.N(8), r.N(16), r.N(256))
		case 5:
			cidr = fmt.Sprintf("fd00:%x::/32", r.N(8))
		case 6:
			cidr = fmt.Sprintf("fd00:%x:%x::/48", r.N(8), r.N(16))
		case 7:
			cidr = fmt.Sprintf("10.%d.%d.%d/%d", r.N(8), r.N(16), r.N(4)*64, 26)
		}
		if seen[m+cidr] {
			continue
		}
		seen[m+cidr] = true
		out = append(out, fmt.Sprintf("%%%s,%s,%s", r.Pick(`\000\001`, `\000\002`, `\000\003`, `\000\004`, "l1"), cidr, m))
	}
	// shuffle record lines a little: interleave a comment and an empty line
	if len(out) > 4 {
		k := 4 + r.N(len(out)-4)
		out = append(out[:k], append([]string{"# a comment line", ""}, out[k:]...)...)
	}
	if o.Stray && len(out) > 0 {
		for n := 1 + r.N(3); n > 0; n-- {
			k := r.N(len(out) + 1)
			out = append(out[:k], append([]string{r.Pick("&", "+", "x", " Z", "  '", "=", ".", "%")}, out[k:]...)...)
		}
	}
	if o.BadLine {
		k := r.N(len(out) + 1)
		bad := r.Pick("?unknown.record.type,1.2.3.4", `%\000\001,10.0.0.0/40,m1`, `+h1.z0.test,1.2.3.4,60,,\`, "Hx.z0.test,svc.z0.test,300,,1,mandatory=port")
		out = append(out[:k], append([]string{bad}, out[k:]...)...)
	}
	return out
}
