module dsim

go 1.26.8

require (
	github.com/anishathalye/porcupine v1.3.0
	github.com/coredns/coredns v1.10.0
	github.com/facebookincubator/dns/dnsrocks v0.0.0
	github.com/fsnotify/fsnotify v1.5.1
	github.com/miekg/dns v1.1.50
	github.com/repustate/go-cdb v0.0.0-20160430174706-6a418fad95e2
	golang.org/x/net v0.34.0
	golang.org/x/sys v0.29.0
	pgregory.net/rapid v1.3.0
)

require (
	github.com/apparentlymart/go-cidr v1.1.0 // indirect
	github.com/beorn7/perks v1.0.1 // indirect
	github.com/cespare/xxhash/v2 v2.1.2 // indirect
	github.com/coredns/caddy v1.1.1 // indirect
	github.com/dgryski/go-spooky v0.0.0-20170606183049-ed3d087f40e2 // indirect
	github.com/dnstap/golang-dnstap v0.4.0 // indirect
	github.com/farsightsec/golang-framestream v0.3.0 // indirect
	github.com/flynn/go-shlex v0.0.0-20150515145356-3f9db97f8568 // indirect
	github.com/golang/glog v1.0.0 // indirect
	github.com/golang/mock v1.6.0 // indirect
	github.com/golang/protobuf v1.5.2 // indirect
	github.com/grpc-ecosystem/grpc-opentracing v0.0.0-20180507213350-8e809c8a8645 // indirect
	github.com/hashicorp/golang-lru v0.5.4 // indirect
	github.com/matttproud/golang_protobuf_extensions v1.0.1 // indirect
	github.com/opentracing/opentracing-go v1.2.0 // indirect
	github.com/pkg/errors v0.9.1 // indirect
	github.com/prometheus/client_golang v1.13.0 // indirect
	github.com/prometheus/client_model v0.2.0 // indirect
	github.com/prometheus/common v0.37.0 // indirect
	github.com/prometheus/procfs v0.8.0 // indirect
	github.com/sirupsen/logrus v1.8.1 // indirect
	golang.org/x/crypto v0.0.0-20220722155217-630584e8d5aa // indirect
	golang.org/x/sync v0.10.0 // indirect
	golang.org/x/text v0.8.0 // indirect
	google.golang.org/genproto v0.0.0-20220624142145-8cd45d7dbd1f // indirect
	google.golang.org/grpc v1.49.0 // indirect
	google.golang.org/protobuf v1.28.1 // indirect
)

replace github.com/facebookincubator/dns/dnsrocks => /repo/dnsrocks

replace github.com/repustate/go-cdb => /repo/dnsrocks/go-cdb-mods

replace golang.org/x/net => ./third_party/xnet
