// Package mon holds the instrumented storage back ends of the simulator: a monitor that wraps
// any db.DBI (real CDB, real RocksDB or the in-memory stub) and records open/use/close events,
// the fault plan for DBI.Reload, and the stub back end.
package mon

import (
	"errors"
	"fmt"
	"net"
	"sync"
	"time"

	"github.com/facebookincubator/dns/dnsrocks/db"
)

// Yielder is the part of the scheduler the monitor needs.
type Yielder interface {
	Y(point string)
	Logf(format string, a ...interface{})
	Seq() uint64
	TaskName() string
	CountOf(name string) int
}

// ReloadPlan says what the next DBI.Reload call does.
type ReloadPlan struct {
	DelayBefore time.Duration // fake-time sleep before the inner Reload is attempted
	DelayAfter  time.Duration // fake-time sleep after the inner Reload returned
	Fail        bool          // return an injected error instead of calling the inner Reload
	FailLow     bool          // let the inner Reload run and fail its low-level catch-up call (RocksDB back ends with a Low wrapper)
	// SlowLow: the low-level catch-up call itself takes that much fake time (a slow disk): the reload is
	// genuinely in flight inside RDB.CatchWithPrimary, with the iterator pool drained, for that long
	SlowLow time.Duration
}

// ErrInjected is the error of an injected fault.
var ErrInjected = errors.New("injected fault")

// Monitor records the life cycle of every back end opened during one run.
type Monitor struct {
	mu         sync.Mutex
	LowFaults  int // low-level catch-up calls failed by injection
	catchAt    map[string]uint64
	y          Yielder
	Backends   []*Backend
	Violations []string
	plans      []ReloadPlan
	planFor    map[string]ReloadPlan // keyed by the name of the db.Reload worker task
	ctxFor     map[string]string
	// counters
	Opens, Closes, Uses, Reloads, UseAfterClose, DoubleClose, ClosedWhilePinned int
	LateBackends                                                                int // backends that came back after their reload had timed out (set by harness)
	Quiet                                                                       bool
	// Context is set by the harness (the operation in progress); every Close remembers it.
	Context string
	// CatchUps are the [start, end] event sequence numbers of every in-place reload (catch-up)
	// that was actually executed on a back end.
	CatchUps []CatchUp
}

// CatchUp is one executed in-place reload.
type CatchUp struct {
	Start, End uint64
	Ctx        string // Monitor.Context when the Reload call that performed it was made
	At         uint64 // the exact point of the low-level catch-up call when the back end has a Low wrapper (else 0)
}

// New creates a monitor.
func New(y Yielder) *Monitor { return &Monitor{y: y} }

// PlanNext binds a plan and a context label to the next db.Reload worker that will be started
// (the caller is about to start a reload and nobody else starts one concurrently). A worker that
// runs late still finds its own plan.
func (m *Monitor) PlanNext(p ReloadPlan, ctx string) {
	name := fmt.Sprintf("dbreload.worker#%d", m.y.CountOf("dbreload.worker"))
	m.mu.Lock()
	if m.planFor == nil {
		m.planFor = map[string]ReloadPlan{}
		m.ctxFor = map[string]string{}
	}
	m.planFor[name] = p
	m.ctxFor[name] = ctx
	m.mu.Unlock()
}

// PushPlan queues the plan for the next Reload call (FIFO).
func (m *Monitor) PushPlan(p ReloadPlan) {
	m.mu.Lock()
	m.plans = append(m.plans, p)
	m.mu.Unlock()
}

func (m *Monitor) popPlan() ReloadPlan {
	m.mu.Lock()
	defer m.mu.Unlock()
	if len(m.plans) == 0 {
		return ReloadPlan{}
	}
	p := m.plans[0]
	m.plans = m.plans[1:]
	return p
}

func (m *Monitor) violate(format string, a ...interface{}) {
	msg := fmt.Sprintf(format, a...)
	m.Violations = append(m.Violations, msg)
}

// Wrap registers inner as a freshly opened back end.
func (m *Monitor) Wrap(inner db.DBI, label string) *Backend {
	m.mu.Lock()
	b := &Backend{m: m, inner: inner, ID: len(m.Backends), Label: label}
	m.Backends = append(m.Backends, b)
	m.Opens++
	m.mu.Unlock()
	if m.y != nil && !m.Quiet {
		m.y.Logf("open b%d %s", b.ID, label)
	}
	return b
}

// Leaks lists back ends that are still open.
func (m *Monitor) Leaks(except *Backend) []string {
	m.mu.Lock()
	defer m.mu.Unlock()
	var out []string
	for _, b := range m.Backends {
		if b.closeCount == 0 && b != except {
			out = append(out, fmt.Sprintf("b%d(%s)", b.ID, b.Label))
		}
	}
	return out
}

// Snapshot returns a copy of the violations.
func (m *Monitor) Snapshot() []string {
	m.mu.Lock()
	defer m.mu.Unlock()
	return append([]string(nil), m.Violations...)
}

// Backend is a monitored db.DBI.
type Backend struct {
	m          *Monitor
	inner      db.DBI
	ID         int
	Label      string
	closeCount int
	pins       int
	// ClosedCtx is Monitor.Context at the time of the first Close.
	ClosedCtx string
	// CatchUp tells whether Reload(path) acts on the store of this very back end (RocksDB
	// catch-up) rather than opening another one. nil = never (CDB-like drivers).
	CatchUp func(path string) bool
	// Low, when set, is the fault wrapper around the low-level RocksDB handle of this back end.
	Low *LowFault
	// Derive, when set, is called for every back end this one opens through Reload.
	Derive func(nb *Backend, inner db.DBI, path string)
}

type deadContext struct{}

func (deadContext) Reset() {}

// Inner returns the wrapped back end.
func (b *Backend) Inner() db.DBI { return b.inner }

// Closed tells whether Close has been called.
func (b *Backend) Closed() bool {
	b.m.mu.Lock()
	defer b.m.mu.Unlock()
	return b.closeCount > 0
}

// Pins returns the number of contexts handed out and not yet freed.
func (b *Backend) Pins() int {
	b.m.mu.Lock()
	defer b.m.mu.Unlock()
	return b.pins
}

// use records a use; false means the back end is closed and must not be touched.
func (b *Backend) use(what string) bool {
	b.m.mu.Lock()
	defer b.m.mu.Unlock()
	b.m.Uses++
	if b.closeCount > 0 {
		b.m.UseAfterClose++
		b.m.violate("use-after-close: %s on b%d(%s)", what, b.ID, b.Label)
		return false
	}
	return true
}

var errClosed = errors.New("monitor: back end is closed")

// NewContext implements db.DBI. Never yields: it is called under DB.l.
func (b *Backend) NewContext() db.Context {
	if !b.use("NewContext") {
		return deadContext{}
	}
	b.m.mu.Lock()
	b.pins++
	b.m.mu.Unlock()
	return b.inner.NewContext()
}

// FreeContext implements db.DBI.
func (b *Backend) FreeContext(c db.Context) {
	if _, dead := c.(deadContext); dead {
		return
	}
	b.m.mu.Lock()
	b.pins--
	closed := b.closeCount > 0
	if closed {
		b.m.UseAfterClose++
		b.m.violate("use-after-close: FreeContext on b%d(%s)", b.ID, b.Label)
	}
	b.m.mu.Unlock()
	if !closed {
		b.inner.FreeContext(c)
	}
}

// Find implements db.DBI.
func (b *Backend) Find(key []byte, c db.Context) ([]byte, error) {
	if _, dead := c.(deadContext); dead || !b.use("Find") {
		return nil, errClosed
	}
	return b.inner.Find(key, c)
}

// ForEach implements db.DBI.
func (b *Backend) ForEach(key []byte, f func(value []byte) error, c db.Context) error {
	if _, dead := c.(deadContext); dead || !b.use("ForEach") {
		return errClosed
	}
	return b.inner.ForEach(key, f, c)
}

// FindMap implements db.DBI.
func (b *Backend) FindMap(domain, mtype []byte, c db.Context) ([]byte, error) {
	if _, dead := c.(deadContext); dead || !b.use("FindMap") {
		return nil, errClosed
	}
	return b.inner.FindMap(domain, mtype, c)
}

// GetLocationByMap implements db.DBI.
func (b *Backend) GetLocationByMap(ipnet *net.IPNet, mapID []byte, c db.Context) ([]byte, uint8, error) {
	if _, dead := c.(deadContext); dead || !b.use("GetLocationByMap") {
		return nil, 0, errClosed
	}
	return b.inner.GetLocationByMap(ipnet, mapID, c)
}

// Close implements db.DBI. Never yields: it is called under DB.l.
func (b *Backend) Close() error {
	b.m.mu.Lock()
	b.closeCount++
	n := b.closeCount
	if n == 1 {
		b.ClosedCtx = b.m.Context
	}
	pins := b.pins
	b.m.Closes++
	if n > 1 {
		b.m.DoubleClose++
		b.m.violate("double-close: b%d(%s) closed %d times", b.ID, b.Label, n)
	} else if pins > 0 {
		b.m.ClosedWhilePinned++
		b.m.violate("closed-while-pinned: b%d(%s) closed with %d reader(s) holding it", b.ID, b.Label, pins)
	}
	b.m.mu.Unlock()
	if b.m.y != nil && !b.m.Quiet {
		b.m.y.Logf("close b%d", b.ID)
	}
	if n > 1 {
		return errClosed
	}
	return b.inner.Close()
}

// Reload implements db.DBI with the fault plan. It runs in the goroutine db.Reload starts.
func (b *Backend) Reload(path string) (db.DBI, error) {
	var p ReloadPlan
	b.m.mu.Lock()
	b.m.Reloads++
	ctx := b.m.Context
	byName := b.m.planFor != nil
	b.m.mu.Unlock()
	if byName {
		name := b.m.y.TaskName()
		b.m.mu.Lock()
		p = b.m.planFor[name]
		if c, ok := b.m.ctxFor[name]; ok {
			ctx = c
		}
		b.m.mu.Unlock()
	} else {
		p = b.m.popPlan()
	}
	if p.DelayBefore > 0 {
		time.Sleep(p.DelayBefore)
		b.m.y.Y("mon.reload.before")
	}
	var out db.DBI
	var err error
	switch {
	case p.Fail:
		err = ErrInjected
	case b.CatchUp != nil && b.CatchUp(path) && !b.use("Reload(catch-up)"):
		// a catch-up works on the store of this back end: refused when it is closed
		err = errClosed
	default:
		// opening another path does not touch this back end's store, closed or not
		var nd db.DBI
		isCatchUp := b.CatchUp != nil && b.CatchUp(path)
		var s0 uint64
		if isCatchUp {
			s0 = b.m.y.Seq()
		}
		lowFired := false
		task := b.m.y.TaskName()
		if p.SlowLow > 0 && isCatchUp && b.Low != nil {
			b.Low.setSlow(task, p.SlowLow)
		}
		if p.FailLow && isCatchUp && b.Low != nil {
			b.Low.arm(task)
			nd, err = b.inner.Reload(path)
			lowFired = b.Low.disarm(task)
			if lowFired {
				b.m.mu.Lock()
				b.m.LowFaults++
				b.m.mu.Unlock()
			}
		} else {
			nd, err = b.inner.Reload(path)
		}
		if isCatchUp && !lowFired {
			s1 := b.m.y.Seq()
			b.m.mu.Lock()
			at := b.m.catchAt[task]
			delete(b.m.catchAt, task)
			b.m.CatchUps = append(b.m.CatchUps, CatchUp{s0, s1, ctx, at})
			b.m.mu.Unlock()
		}
		if err == nil && nd != nil {
			if nd == b.inner {
				out = b
			} else {
				nb := b.m.Wrap(nd, path)
				if b.Derive != nil {
					b.Derive(nb, nd, path)
				}
				out = nb
			}
		}
	}
	if p.DelayAfter > 0 {
		time.Sleep(p.DelayAfter)
		b.m.y.Y("mon.reload.after")
	}
	if err != nil {
		return nil, err
	}
	return out, nil
}

// GetStats implements db.DBI.
func (b *Backend) GetStats() map[string]int64 {
	if !b.use("GetStats") {
		return map[string]int64{}
	}
	return b.inner.GetStats()
}

type finder struct {
	b     *Backend
	inner db.ClosestKeyFinder
}

func (f finder) FindClosestKey(key []byte, c db.Context) ([]byte, error) {
	if _, dead := c.(deadContext); dead || !f.b.use("FindClosestKey") {
		return nil, errClosed
	}
	return f.inner.FindClosestKey(key, c)
}

// ClosestKeyFinder implements db.DBI. Called under DB.l: never yields.
func (b *Backend) ClosestKeyFinder() db.ClosestKeyFinder {
	b.m.mu.Lock()
	closed := b.closeCount > 0
	b.m.mu.Unlock()
	if closed {
		return nil
	}
	in := b.inner.ClosestKeyFinder()
	if in == nil {
		return nil
	}
	return finder{b, in}
}
