package mon

import (
	rocksdb "github.com/facebookincubator/dns/dnsrocks/cgo-rocksdb"
	"github.com/facebookincubator/dns/dnsrocks/dnsdata/rdb"
)

// FaultyRDBI wraps the low-level RocksDB handle of an rdb.RDB and fails selected calls.
type FaultyRDBI struct {
	rdb.DBI
	// FailAt holds the indices (0-based, counted over the fallible calls below) that fail.
	FailAt map[int]bool
	N      int
	// OnFail is told which call was failed.
	OnFail func(call string, index int)
	Calls  map[string]int
	// Suspend makes the wrapper transparent (used for the harness's own verification reads).
	Suspend bool
}

func (f *FaultyRDBI) hit(call string) bool {
	if f.Suspend {
		return false
	}
	if f.Calls == nil {
		f.Calls = map[string]int{}
	}
	f.Calls[call]++
	i := f.N
	f.N++
	if f.FailAt[i] {
		if f.OnFail != nil {
			f.OnFail(call, i)
		}
		return true
	}
	return false
}

// Put implements rdb.DBI.
func (f *FaultyRDBI) Put(wo *rocksdb.WriteOptions, key, value []byte) error {
	if f.hit("Put") {
		return ErrInjected
	}
	return f.DBI.Put(wo, key, value)
}

// Get implements rdb.DBI.
func (f *FaultyRDBI) Get(ro *rocksdb.ReadOptions, key []byte) ([]byte, error) {
	if f.hit("Get") {
		return nil, ErrInjected
	}
	return f.DBI.Get(ro, key)
}

// Delete implements rdb.DBI.
func (f *FaultyRDBI) Delete(wo *rocksdb.WriteOptions, key []byte) error {
	if f.hit("Delete") {
		return ErrInjected
	}
	return f.DBI.Delete(wo, key)
}

// GetMulti implements rdb.DBI.
func (f *FaultyRDBI) GetMulti(ro *rocksdb.ReadOptions, keys [][]byte) ([][]byte, []error) {
	if f.hit("GetMulti") {
		errs := make([]error, len(keys))
		for i := range errs {
			errs[i] = ErrInjected
		}
		return make([][]byte, len(keys)), errs
	}
	return f.DBI.GetMulti(ro, keys)
}

// ExecuteBatch implements rdb.DBI.
func (f *FaultyRDBI) ExecuteBatch(b *rocksdb.Batch, wo *rocksdb.WriteOptions) error {
	if f.hit("ExecuteBatch") {
		return ErrInjected
	}
	return f.DBI.ExecuteBatch(b, wo)
}

// IngestSSTFiles implements rdb.DBI.
func (f *FaultyRDBI) IngestSSTFiles(names []string, hardlinks bool) error {
	if f.hit("IngestSSTFiles") {
		return ErrInjected
	}
	return f.DBI.IngestSSTFiles(names, hardlinks)
}
