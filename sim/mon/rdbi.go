package mon

import (
	"sync"
	"time"

	rocksdb "github.com/facebookincubator/dns/dnsrocks/cgo-rocksdb"
	"github.com/facebookincubator/dns/dnsrocks/dnsdata/rdb"
)

// FaultyRDBI wraps the low-level RocksDB handle of an rdb.RDB and fails selected calls.
type FaultyRDBI struct {
	rdb.DBI
	// FailAt holds the indices (0-based, counted over the fallible calls below) that fail.
	FailAt map[int]bool
	N      int
	// OnFail is told which call was failed.
	OnFail func(call string, index int)
	Calls  map[string]int
	// FailNamed, when set, also fails the k-th (0-based) call of the given name, e.g. the second
	// low-level ExecuteBatch: writes are rare among all calls, so an index over all calls seldom hits one.
	FailNamed map[string]int
	// Suspend makes the wrapper transparent (used for the harness's own verification reads).
	Suspend bool
	mu      sync.Mutex // free-running compilations call from several goroutines
}

func (f *FaultyRDBI) hit(call string) bool {
	f.mu.Lock()
	defer f.mu.Unlock()
	if f.Suspend {
		return false
	}
	if f.Calls == nil {
		f.Calls = map[string]int{}
	}
	f.Calls[call]++
	i := f.N
	f.N++
	if k, ok := f.FailNamed[call]; ok && k == f.Calls[call]-1 {
		if f.OnFail != nil {
			f.OnFail(call, i)
		}
		return true
	}
	if f.FailAt[i] {
		if f.OnFail != nil {
			f.OnFail(call, i)
		}
		return true
	}
	return false
}

// Put implements rdb.DBI.
func (f *FaultyRDBI) Put(wo *rocksdb.WriteOptions, key, value []byte) error {
	if f.hit("Put") {
		return ErrInjected
	}
	return f.DBI.Put(wo, key, value)
}

// Get implements rdb.DBI.
func (f *FaultyRDBI) Get(ro *rocksdb.ReadOptions, key []byte) ([]byte, error) {
	if f.hit("Get") {
		return nil, ErrInjected
	}
	return f.DBI.Get(ro, key)
}

// Delete implements rdb.DBI.
func (f *FaultyRDBI) Delete(wo *rocksdb.WriteOptions, key []byte) error {
	if f.hit("Delete") {
		return ErrInjected
	}
	return f.DBI.Delete(wo, key)
}

// GetMulti implements rdb.DBI.
func (f *FaultyRDBI) GetMulti(ro *rocksdb.ReadOptions, keys [][]byte) ([][]byte, []error) {
	if f.hit("GetMulti") {
		errs := make([]error, len(keys))
		for i := range errs {
			errs[i] = ErrInjected
		}
		return make([][]byte, len(keys)), errs
	}
	return f.DBI.GetMulti(ro, keys)
}

// ExecuteBatch implements rdb.DBI.
func (f *FaultyRDBI) ExecuteBatch(b *rocksdb.Batch, wo *rocksdb.WriteOptions) error {
	if f.hit("ExecuteBatch") {
		return ErrInjected
	}
	return f.DBI.ExecuteBatch(b, wo)
}

// IngestSSTFiles implements rdb.DBI.
func (f *FaultyRDBI) IngestSSTFiles(names []string, hardlinks bool) error {
	if f.hit("IngestSSTFiles") {
		return ErrInjected
	}
	return f.DBI.IngestSSTFiles(names, hardlinks)
}

// LowFault wraps the low-level handle of a RocksDB secondary. It tells the monitor the exact point
// of every low-level catch-up call (that is when newly published data becomes visible), and fails
// the call of the task it is armed for: the error surfaces inside rdb.RDB.CatchWithPrimary, after
// the iterator pool was disabled.
type LowFault struct {
	rdb.DBI
	M     *Monitor
	mu    sync.Mutex
	armed map[string]bool
	fired map[string]bool
	slow  map[string]time.Duration
}

func (f *LowFault) setSlow(task string, d time.Duration) {
	f.mu.Lock()
	if f.slow == nil {
		f.slow = map[string]time.Duration{}
	}
	f.slow[task] = d
	f.mu.Unlock()
}

func (f *LowFault) arm(task string) {
	f.mu.Lock()
	if f.armed == nil {
		f.armed, f.fired = map[string]bool{}, map[string]bool{}
	}
	f.armed[task] = true
	delete(f.fired, task)
	f.mu.Unlock()
}

func (f *LowFault) disarm(task string) bool {
	f.mu.Lock()
	defer f.mu.Unlock()
	delete(f.armed, task)
	hit := f.fired[task]
	delete(f.fired, task)
	return hit
}

// CatchWithPrimary implements rdb.DBI.
func (f *LowFault) CatchWithPrimary() error {
	task := ""
	if f.M != nil {
		task = f.M.y.TaskName()
	}
	f.mu.Lock()
	hit := f.armed[task]
	if hit {
		delete(f.armed, task)
		f.fired[task] = true
	}
	stall := f.slow[task]
	delete(f.slow, task)
	f.mu.Unlock()
	if stall > 0 && f.M != nil {
		time.Sleep(stall)
		f.M.y.Y("low.catchup.slow")
	}
	if hit {
		return ErrInjected
	}
	if f.M != nil {
		f.M.mu.Lock()
		if f.M.catchAt == nil {
			f.M.catchAt = map[string]uint64{}
		}
		f.M.catchAt[task] = f.M.y.Seq()
		f.M.mu.Unlock()
	}
	return f.DBI.CatchWithPrimary()
}
