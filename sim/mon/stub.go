package mon

import (
	"bytes"
	"fmt"
	"net"
	"sync"

	"github.com/facebookincubator/dns/dnsrocks/db"
)

// PathState is what a (simulated) path holds.
type PathState struct {
	Gen     int
	HasKey  bool // the validation key is present
	OpenErr bool // opening / catching up fails
}

// World is the simulated file system of the stub back end: path -> content.
type World struct {
	mu    sync.Mutex
	paths map[string]PathState
}

// NewWorld creates an empty world.
func NewWorld() *World { return &World{paths: map[string]PathState{}} }

// Publish sets the content of a path.
func (w *World) Publish(path string, st PathState) {
	w.mu.Lock()
	w.paths[path] = st
	w.mu.Unlock()
}

// Get reads a path.
func (w *World) Get(path string) (PathState, bool) {
	w.mu.Lock()
	defer w.mu.Unlock()
	st, ok := w.paths[path]
	return st, ok
}

// StubKey is the validation key of the stub back end.
var StubKey = []byte("validation-key")

// Stub is an in-memory db.DBI with the reload behaviour of the RocksDB driver (same path =
// catch up and return itself) or of the CDB driver (always a new back end).
type Stub struct {
	w         *World
	Path      string
	AlwaysNew bool
	mu        sync.Mutex
	st        PathState
}

// OpenStub opens path in w.
func OpenStub(w *World, path string, alwaysNew bool) (*Stub, error) {
	st, ok := w.Get(path)
	if !ok || st.OpenErr {
		return nil, fmt.Errorf("stub: cannot open %q", path)
	}
	return &Stub{w: w, Path: path, AlwaysNew: alwaysNew, st: st}, nil
}

type stubContext struct{}

func (stubContext) Reset() {}

// Gen returns the generation this back end currently shows.
func (s *Stub) Gen() int {
	s.mu.Lock()
	defer s.mu.Unlock()
	return s.st.Gen
}

// NewContext implements db.DBI.
func (s *Stub) NewContext() db.Context { return stubContext{} }

// FreeContext implements db.DBI.
func (s *Stub) FreeContext(db.Context) {}

// Find implements db.DBI: the validation key maps to the generation number.
func (s *Stub) Find(key []byte, _ db.Context) ([]byte, error) {
	s.mu.Lock()
	defer s.mu.Unlock()
	if bytes.Equal(key, StubKey) && s.st.HasKey {
		return []byte(fmt.Sprint(s.st.Gen)), nil
	}
	return nil, nil
}

// ForEach implements db.DBI.
func (s *Stub) ForEach(key []byte, f func(value []byte) error, c db.Context) error {
	v, _ := s.Find(key, c)
	if v != nil {
		return f(v)
	}
	return nil
}

// FindMap implements db.DBI.
func (s *Stub) FindMap(domain, mtype []byte, _ db.Context) ([]byte, error) { return nil, nil }

// GetLocationByMap implements db.DBI.
func (s *Stub) GetLocationByMap(*net.IPNet, []byte, db.Context) ([]byte, uint8, error) {
	return nil, 0, nil
}

// Close implements db.DBI.
func (s *Stub) Close() error { return nil }

// Reload implements db.DBI.
func (s *Stub) Reload(path string) (db.DBI, error) {
	st, ok := s.w.Get(path)
	if !ok || st.OpenErr {
		return nil, fmt.Errorf("stub: cannot open %q", path)
	}
	if path == s.Path && !s.AlwaysNew {
		s.mu.Lock()
		s.st = st
		s.mu.Unlock()
		return s, nil
	}
	return &Stub{w: s.w, Path: path, AlwaysNew: s.AlwaysNew, st: st}, nil
}

// GetStats implements db.DBI.
func (s *Stub) GetStats() map[string]int64 { return map[string]int64{"stub.gen": int64(s.Gen())} }

// ClosestKeyFinder implements db.DBI.
func (s *Stub) ClosestKeyFinder() db.ClosestKeyFinder { return nil }
