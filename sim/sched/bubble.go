package sched

import (
	"fmt"
	"math/rand/v2"
	"os"
	"runtime"
	"strings"
	"sync/atomic"
	"testing"
	"testing/synctest"
	"time"

	"github.com/facebookincubator/dns/dnsrocks/verifhook"
)

// Heartbeat is bumped by every scheduler step of every Sim created through Bubble.
var Heartbeat atomic.Uint64

var bubbleErr atomic.Value

// TakeBubbleError returns (and clears) the report of a bubble whose root goroutine deadlocked.
func TakeBubbleError() string {
	v := bubbleErr.Swap("")
	if v == nil {
		return ""
	}
	return v.(string)
}

// LeakedBubbles counts bubbles that ended with goroutines still blocked.
var LeakedBubbles atomic.Uint64

// StartWatchdog starts a real-clock watchdog outside any bubble: if the heartbeat does not
// move for limit, all goroutine stacks are dumped and the process exits with status 2
// (harness trouble, never a violation).
func StartWatchdog(limit time.Duration, what func() string) {
	go func() {
		last := Heartbeat.Load()
		lastChange := time.Now()
		for {
			time.Sleep(500 * time.Millisecond)
			cur := Heartbeat.Load()
			if cur != last {
				last, lastChange = cur, time.Now()
				continue
			}
			if time.Since(lastChange) > limit {
				buf := make([]byte, 1<<20)
				buf = buf[:runtime.Stack(buf, true)]
				fmt.Fprintf(os.Stderr, "WATCHDOG: no scheduler progress for %v (%s)\n%s\n", limit, what(), buf)
				os.Exit(2)
			}
		}
	}()
}

// Bubble runs fn inside a fresh synctest bubble with a Sim attached to the /repo hooks.
// fn creates tasks and calls s.Run itself. After fn returns every later hook is a no-op,
// leftover goroutines are given fake time to finish, and the end-of-bubble deadlock panic
// (goroutines that never finish) is recovered and counted.
func Bubble(t *testing.T, opt Options, fn func(s *Sim)) {
	defer func() {
		verifhook.Attach(nil) // also when the bubble died: nothing may call into a dead Sim
		if r := recover(); r != nil {
			msg := fmt.Sprint(r)
			if strings.Contains(msg, "deadlock: main bubble goroutine has exited") {
				LeakedBubbles.Add(1)
				return
			}
			if strings.Contains(msg, "deadlock: all goroutines in bubble are blocked") {
				// the bubble's root goroutine itself is blocked for good (in clean-up code after the
				// scheduler finished): keep the stacks for the report
				buf := make([]byte, 1<<18)
				buf = buf[:runtime.Stack(buf, true)]
				bubbleErr.Store(msg + "\n" + string(buf))
				return
			}
			panic(r)
		}
	}()
	synctest.Test(t, func(t *testing.T) {
		s := New(opt)
		s.Heartbeat = &Heartbeat
		verifhook.Attach(s)
		defer verifhook.Attach(nil)
		fn(s)
		s.Shutdown()
		s.Drain(3, time.Hour)
	})
}

// Perturb is the free-running hook handler of the race-detector tier: no synchronisation
// (hence no spurious happens-before edges), only random Gosched calls and short sleeps.
type Perturb struct{}

// Yield implements verifhook.Handler.
func (Perturb) Yield(string, func() bool) {
	switch v := rand.Uint32() % 64; {
	case v < 12:
		runtime.Gosched()
	case v == 12:
		time.Sleep(time.Duration(rand.Uint32()%200) * time.Microsecond)
	}
}

// Enter implements verifhook.Handler.
func (Perturb) Enter(string) { runtime.Gosched() }

// Exit implements verifhook.Handler.
func (Perturb) Exit() {}

// Event implements verifhook.Handler.
func (Perturb) Event(string, ...interface{}) {}
