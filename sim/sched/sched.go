// Package sched is the seeded cooperative scheduler of the simulator.
//
// Simulated tasks are real goroutines living in one testing/synctest bubble.
// A task runs until it calls Yield (directly, or through a verifhook call
// site compiled into /repo with the build tag "verif"), where it parks on a
// private channel.  The scheduler goroutine waits for quiescence
// (synctest.Wait), computes the enabled set (parked tasks whose guard holds),
// takes the next value of the choice tape and releases exactly one task, or
// lets the fake clock advance to the next timer.
//
// Nothing in here draws from a global random source or reads a real clock.
package sched

import (
	"bytes"
	"errors"
	"fmt"
	"runtime"
	"sort"
	"strconv"
	"sync"
	"sync/atomic"
	"testing/synctest"
	"time"
)

// Task states.
const (
	stRunning = iota
	stParked
	stDone
)

// Task is one simulated task (a goroutine known to the scheduler).
type Task struct {
	ID     int
	Name   string
	Daemon bool // a daemon need not finish for the run to end

	gid   uint64
	wake  chan struct{}
	state int
	point string
	guard func() bool
	// parkAdv is the number of clock advances that had happened when the task parked: a task
	// that has already waited through one advance is not starved through a second one
	parkAdv int
	// Panic holds the recovered panic value of a harness task, if any.
	Panic interface{}
	// PanicStack holds the stack at the time of the panic.
	PanicStack string
}

// Finished tells whether the task has run to completion.
func (t *Task) Finished() bool { return t.state == stDone }

// Step is one scheduling decision.
type Step struct {
	N     int    `json:"n"`
	Task  string `json:"task"`
	Point string `json:"point"`
}

// Options configures a Sim.
type Options struct {
	Tape                  []uint8 // explicit choices; exhausted => PRNG seeded with TapeSeed
	TapeSeed              uint64
	Calm                  int           // 0: uniform choice, 1: continue the last task with p=1/2, 2: p=7/8
	MaxSteps              int           // hard cap on scheduling steps (0 = 200000)
	IdleStep              time.Duration // longest single clock jump (0 = 10 min)
	Stall                 time.Duration // fake time without non-daemon progress that counts as deadlock (0 = 2h)
	NoAdvanceWhileEnabled bool          // never choose "advance time" while some task is enabled
	KeepSchedule          bool          // record every step (for replay files)
	// StallAt, when set, is asked every time a task parks at a yield point; a positive answer keeps
	// the task parked for that much fake time (a slow or descheduled goroutine: a fault the scenario
	// places, not a choice of the tape)
	StallAt func(task, point string) time.Duration
}

// ErrDeadlock is returned by Run when unfinished non-daemon tasks exist, none is enabled and
// no timer makes progress any more.
var ErrDeadlock = errors.New("deadlock: unfinished tasks, none enabled, no timer makes progress")

// ErrSteps is returned by Run when MaxSteps is exhausted.
var ErrSteps = errors.New("step budget exhausted")

// Sim is one simulated run.
type Sim struct {
	mu        sync.Mutex
	opt       Options
	byGid     map[uint64]*Task
	tasks     []*Task
	pending   []*Task
	nameCount map[string]int
	pos       int
	rng       uint64
	seq       uint64
	kick      chan struct{}
	last      *Task
	shutdown  atomic.Bool
	frozen    atomic.Bool // Freeze was called: a goroutine reaching a hook blocks for good
	abandoned atomic.Bool // Run ended in a deadlock: Shutdown and Drain leave the parked tasks alone
	rootGid   uint64      // the goroutine that created the Sim and runs the scheduler: it never parks
	hash      uint64
	start     time.Time

	// statistics
	Steps        int
	Switches     int // control passed to a different task although the last one was enabled
	Advances     int // clock jumps chosen or forced
	ForcedIdle   int
	Schedule     []Step
	PairCover    map[string]int // "pointA>pointB": control passed from a task parked at A to a task parked at B
	PointCover   map[string]int
	LastRelease  map[string]time.Time // yield point -> fake time a task parked there was last released
	Log          []string
	Heartbeat    *atomic.Uint64 // incremented every step; watched from outside the bubble
	lastProgress time.Time
}

// New creates a Sim. Must be called inside the bubble.
func New(opt Options) *Sim {
	if opt.MaxSteps == 0 {
		opt.MaxSteps = 200000
	}
	if opt.IdleStep == 0 {
		opt.IdleStep = 10 * time.Minute
	}
	if opt.Stall == 0 {
		opt.Stall = 2 * time.Hour
	}
	s := &Sim{
		opt:         opt,
		byGid:       map[uint64]*Task{},
		nameCount:   map[string]int{},
		kick:        make(chan struct{}, 1),
		rng:         opt.TapeSeed*0x9e3779b97f4a7c15 + 0x1234567,
		hash:        14695981039346656037,
		PairCover:   map[string]int{},
		PointCover:  map[string]int{},
		LastRelease: map[string]time.Time{},
		start:       time.Now(),
	}
	s.lastProgress = s.start
	s.rootGid = gid()
	return s
}

func gid() uint64 {
	var buf [64]byte
	n := runtime.Stack(buf[:], false)
	// "goroutine 123 ["
	b := buf[:n]
	b = b[len("goroutine "):]
	i := bytes.IndexByte(b, ' ')
	id, _ := strconv.ParseUint(string(b[:i]), 10, 64)
	return id
}

func (s *Sim) mix(str string) {
	h := s.hash
	for i := 0; i < len(str); i++ {
		h ^= uint64(str[i])
		h *= 1099511628211
	}
	h ^= 0xff
	h *= 1099511628211
	s.hash = h
}

// TraceHash is a hash of every scheduling decision and logged event so far.
func (s *Sim) TraceHash() string {
	s.mu.Lock()
	defer s.mu.Unlock()
	return fmt.Sprintf("%016x", s.hash)
}

// Seq returns the next global event sequence number.
func (s *Sim) Seq() uint64 {
	s.mu.Lock()
	defer s.mu.Unlock()
	s.seq++
	return s.seq
}

// Logf records an event line in the trace (hashed; kept only up to a bound).
func (s *Sim) Logf(format string, a ...interface{}) {
	line := fmt.Sprintf(format, a...)
	s.mu.Lock()
	s.seq++
	s.mix(line)
	if len(s.Log) < 4000 {
		s.Log = append(s.Log, fmt.Sprintf("%d %s", s.seq, line))
	}
	s.mu.Unlock()
}

// Now returns fake time elapsed since the Sim was created.
func (s *Sim) Now() time.Duration { return time.Since(s.start) }

func (s *Sim) register(name string, daemon bool) *Task {
	t := &Task{Name: name, Daemon: daemon, gid: gid(), wake: make(chan struct{}, 1), ID: -1}
	s.byGid[t.gid] = t
	s.pending = append(s.pending, t)
	return t
}

func (s *Sim) admitPending() {
	if len(s.pending) == 0 {
		return
	}
	sort.SliceStable(s.pending, func(i, j int) bool { return s.pending[i].Name < s.pending[j].Name })
	for _, t := range s.pending {
		n := s.nameCount[t.Name]
		s.nameCount[t.Name] = n + 1
		t.Name = fmt.Sprintf("%s#%d", t.Name, n)
		t.ID = len(s.tasks)
		s.tasks = append(s.tasks, t)
	}
	s.pending = s.pending[:0]
}

func (s *Sim) park(t *Task, point string, guard func() bool) {
	s.mu.Lock()
	t.state = stParked
	t.point = point
	t.guard = guard
	t.parkAdv = s.Advances
	s.mu.Unlock()
	select {
	case s.kick <- struct{}{}:
	default:
	}
	<-t.wake
}

// Yield implements verifhook.Handler and is also called by harness code.
func (s *Sim) Yield(point string, guard func() bool) {
	g := gid()
	if g == s.rootGid {
		return // set-up and clean-up code run by the scheduler's own goroutine
	}
	if s.frozen.Load() {
		select {} // a durable block: the bubble can end although this goroutine never will
	}
	if s.shutdown.Load() {
		return
	}
	s.mu.Lock()
	t := s.byGid[g]
	if t == nil {
		t = s.register("auto:"+point, true)
	}
	name := t.Name
	s.mu.Unlock()
	if s.opt.StallAt != nil && t.ID >= 0 {
		if d := s.opt.StallAt(name, point); d > 0 {
			until := time.Now().Add(d)
			inner := guard
			guard = func() bool { return !time.Now().Before(until) && (inner == nil || inner()) }
			// a timer of its own, so that the clock can move to the end of the stall when nothing else is due
			time.AfterFunc(d, func() {
				select {
				case s.kick <- struct{}{}:
				default:
				}
			})
			s.Logf("stall %s@%s %v", name, point, d)
		}
	}
	s.park(t, point, guard)
}

// TaskName returns the name of the task the calling goroutine is ("" if unknown).
func (s *Sim) TaskName() string {
	g := gid()
	s.mu.Lock()
	defer s.mu.Unlock()
	if t := s.byGid[g]; t != nil {
		if t.ID < 0 {
			// not admitted yet: its final name is Name#<count so far + position among pending>
			n := s.nameCount[t.Name]
			for _, p := range s.pending {
				if p == t {
					break
				}
				if p.Name == t.Name {
					n++
				}
			}
			return fmt.Sprintf("%s#%d", t.Name, n)
		}
		return t.Name
	}
	return ""
}

// CountOf returns how many tasks with the given base name have been registered so far.
func (s *Sim) CountOf(name string) int {
	s.mu.Lock()
	defer s.mu.Unlock()
	n := s.nameCount[name]
	for _, p := range s.pending {
		if p.Name == name {
			n++
		}
	}
	return n
}

// Y is Yield without a guard.
func (s *Sim) Y(point string) { s.Yield(point, nil) }

// Enter implements verifhook.Handler: names the calling goroutine (a goroutine that
// /repo started) as a task that must finish, and yields.
func (s *Sim) Enter(name string) {
	if s.shutdown.Load() {
		return
	}
	g := gid()
	if g == s.rootGid {
		return
	}
	s.mu.Lock()
	t := s.byGid[g]
	if t == nil {
		t = s.register(name, false)
	}
	s.mu.Unlock()
	s.park(t, name+".enter", nil)
}

// Exit implements verifhook.Handler.
func (s *Sim) Exit() {
	g := gid()
	s.mu.Lock()
	if t := s.byGid[g]; t != nil {
		t.state = stDone
	}
	s.mu.Unlock()
	select {
	case s.kick <- struct{}{}:
	default:
	}
}

// Event implements verifhook.Handler.
func (s *Sim) Event(name string, args ...interface{}) {
	s.Logf("%s %v", name, args)
}

// Go starts fn as a harness task. The task parks before running fn. A panic in fn is
// recovered and stored in the task.
func (s *Sim) Go(name string, daemon bool, fn func()) *Task {
	t := &Task{Name: name, Daemon: daemon, wake: make(chan struct{}, 1), ID: -1, state: stParked, point: "start"}
	s.mu.Lock()
	n := s.nameCount[name]
	s.nameCount[name] = n + 1
	if n > 0 {
		t.Name = fmt.Sprintf("%s#%d", name, n)
	}
	t.ID = len(s.tasks)
	s.tasks = append(s.tasks, t)
	s.mu.Unlock()
	ready := make(chan struct{})
	go func() {
		t.gid = gid()
		s.mu.Lock()
		s.byGid[t.gid] = t
		s.mu.Unlock()
		close(ready)
		defer func() {
			if r := recover(); r != nil {
				buf := make([]byte, 16384)
				buf = buf[:runtime.Stack(buf, false)]
				s.mu.Lock()
				t.Panic = r
				t.PanicStack = string(buf)
				s.mu.Unlock()
			}
			s.mu.Lock()
			t.state = stDone
			s.mu.Unlock()
			select {
			case s.kick <- struct{}{}:
			default:
			}
		}()
		<-t.wake
		fn()
	}()
	<-ready
	return t
}

// Sleep blocks the calling task for d of fake time and yields afterwards.
func (s *Sim) Sleep(d time.Duration) {
	time.Sleep(d)
	s.Y("wake")
}

func (s *Sim) next() uint8 {
	if s.pos < len(s.opt.Tape) {
		v := s.opt.Tape[s.pos]
		s.pos++
		return v
	}
	s.pos++
	// splitmix64
	s.rng += 0x9e3779b97f4a7c15
	z := s.rng
	z = (z ^ (z >> 30)) * 0xbf58476d1ce4e5b9
	z = (z ^ (z >> 27)) * 0x94d049bb133111eb
	z ^= z >> 31
	return uint8(z >> 24)
}

// Tasks returns all admitted tasks.
func (s *Sim) Tasks() []*Task {
	s.mu.Lock()
	defer s.mu.Unlock()
	return append([]*Task(nil), s.tasks...)
}

// Panics returns "task: value" for every harness task that panicked.
func (s *Sim) Panics() []string {
	s.mu.Lock()
	defer s.mu.Unlock()
	var out []string
	for _, t := range s.tasks {
		if t.Panic != nil {
			out = append(out, fmt.Sprintf("%s: %v", t.Name, t.Panic))
		}
	}
	return out
}

// Run drives the tasks until every non-daemon task has finished.
func (s *Sim) Run() error {
	for {
		synctest.Wait()
		if s.Heartbeat != nil {
			s.Heartbeat.Add(1)
		}
		s.mu.Lock()
		s.admitPending()
		var enabled []*Task
		pending := 0
		var blocked []string
		for _, t := range s.tasks {
			if t.state == stDone {
				continue
			}
			if !t.Daemon {
				pending++
			}
			if t.state == stParked && (t.guard == nil || t.guard()) {
				enabled = append(enabled, t)
			} else if !t.Daemon {
				blocked = append(blocked, fmt.Sprintf("%s@%s", t.Name, t.point))
			}
		}
		if pending == 0 {
			s.mu.Unlock()
			return nil
		}
		if s.Steps >= s.opt.MaxSteps {
			s.mu.Unlock()
			return fmt.Errorf("%w after %d steps; waiting: %v", ErrSteps, s.Steps, blocked)
		}
		now := time.Now()
		if now.Sub(s.lastProgress) > s.opt.Stall {
			nonDaemonEnabled := false
			for _, t := range enabled {
				if !t.Daemon {
					nonDaemonEnabled = true
				}
			}
			if !nonDaemonEnabled {
				s.mu.Unlock()
				// the tasks stay where they are: releasing one that waits for a lock whose holder is
				// blocked for good would move it from a yield point into a real mutex wait, which the
				// bubble cannot tell from running code (synctest.Wait would never return)
				s.abandoned.Store(true)
				return fmt.Errorf("%w; waiting: %v", ErrDeadlock, blocked)
			}
		}
		v := s.next()
		advance := len(enabled) == 0
		if !advance && !s.opt.NoAdvanceWhileEnabled && v%16 == 15 {
			// fairness: time may pass over a runnable task once (a slow task), not again and again
			advance = true
			for _, t := range enabled {
				if t.parkAdv != s.Advances {
					advance = false
				}
			}
		}
		if advance {
			s.Steps++
			s.Advances++
			if len(enabled) == 0 {
				s.ForcedIdle++
			}
			s.mix("advance")
			if s.opt.KeepSchedule {
				s.Schedule = append(s.Schedule, Step{N: s.Steps, Task: "-", Point: "advance"})
			}
			s.mu.Unlock()
			select {
			case <-s.kick:
			default:
			}
			step := s.opt.IdleStep
			if len(enabled) > 0 {
				// voluntary advance over runnable tasks: a bounded quantum, so that a runnable
				// task is never starved for longer than that
				step = [4]time.Duration{5 * time.Millisecond, 60 * time.Millisecond, 250 * time.Millisecond, 1100 * time.Millisecond}[(v>>4)&3]
			}
			timer := time.NewTimer(step)
			select {
			case <-s.kick:
				timer.Stop()
			case <-timer.C:
			}
			continue
		}
		// order: last-run task first when enabled, the rest by id
		if s.last != nil {
			for i, t := range enabled {
				if t == s.last {
					copy(enabled[1:i+1], enabled[:i])
					enabled[0] = t
					break
				}
			}
		}
		idx := 0
		lastEnabled := s.last != nil && enabled[0] == s.last
		calmKeep := false
		switch s.opt.Calm {
		case 1:
			calmKeep = v < 128
		case 2:
			calmKeep = v < 224
		}
		if !(calmKeep && lastEnabled) {
			idx = int(v>>4) % len(enabled)
			if s.opt.Calm == 0 {
				idx = int(v) % len(enabled)
			}
		}
		t := enabled[idx]
		if lastEnabled && t != s.last {
			s.Switches++
		}
		if s.last != nil && s.last != t {
			key := s.last.point + ">" + t.point
			if s.last.state == stDone {
				key = "(done)>" + t.point
			}
			s.PairCover[key]++
		}
		s.PointCover[t.point]++
		s.LastRelease[t.point] = now
		s.Steps++
		s.mix(t.Name)
		s.mix(t.point)
		if s.opt.KeepSchedule {
			s.Schedule = append(s.Schedule, Step{N: s.Steps, Task: t.Name, Point: t.point})
		}
		if !t.Daemon {
			s.lastProgress = now
		}
		s.last = t
		t.state = stRunning
		t.guard = nil
		s.mu.Unlock()
		t.wake <- struct{}{}
	}
}

// Shutdown turns every later Yield into a no-op and releases every parked task, so that
// goroutines can run to completion before the bubble ends. Nothing is judged afterwards.
func (s *Sim) Shutdown() {
	s.shutdown.Store(true)
	if s.abandoned.Load() {
		return
	}
	s.mu.Lock()
	for _, t := range append(append([]*Task(nil), s.tasks...), s.pending...) {
		if t.state == stParked {
			t.state = stRunning
			select {
			case t.wake <- struct{}{}:
			default:
			}
		}
	}
	s.mu.Unlock()
}

// Freeze makes every goroutine that reaches a hook from now on block for good. It is for runs
// that started goroutines of /repo which loop on a ticker without any way to stop them
// (fbserver.Server.LogMapAge, DumpBackendStats): they would keep the bubble's clock running for
// ever. Call it after the run has been judged.
func (s *Sim) Freeze() { s.frozen.Store(true) }

// Drain waits (in fake time) for leftover goroutines after Shutdown.
func (s *Sim) Drain(rounds int, step time.Duration) {
	if s.abandoned.Load() {
		return
	}
	for i := 0; i < rounds; i++ {
		synctest.Wait()
		time.Sleep(step)
	}
	synctest.Wait()
}
