package sched

import (
	"sync"
	"testing"
	"time"
)

// A toy system: two incrementers doing a non-atomic read-modify-write around yields; the
// scheduler must find the lost update for some tape, and the same tape must give the same trace.
func runToy(t *testing.T, seed uint64, locked bool) (int, string) {
	var res int
	var hash string
	Bubble(t, Options{TapeSeed: seed}, func(s *Sim) {
		var mu sync.Mutex
		x := 0
		for i := 0; i < 2; i++ {
			s.Go("inc", false, func() {
				for k := 0; k < 3; k++ {
					if locked {
						s.Yield("lock", func() bool {
							if mu.TryLock() {
								mu.Unlock()
								return true
							}
							return false
						})
						mu.Lock()
					}
					v := x
					s.Y("rmw")
					x = v + 1
					if locked {
						mu.Unlock()
					}
					s.Sleep(time.Duration(k+1) * time.Second)
				}
			})
		}
		if err := s.Run(); err != nil {
			t.Fatal(err)
		}
		res = x
		hash = s.TraceHash()
	})
	return res, hash
}

func TestToy(t *testing.T) {
	lost := 0
	for seed := uint64(0); seed < 200; seed++ {
		x, h := runToy(t, seed, false)
		x2, h2 := runToy(t, seed, false)
		if x != x2 || h != h2 {
			t.Fatalf("seed %d not deterministic: %d/%s vs %d/%s", seed, x, h, x2, h2)
		}
		if x != 6 {
			lost++
		}
		if y, _ := runToy(t, seed, true); y != 6 {
			t.Fatalf("seed %d: locked version lost an update: %d", seed, y)
		}
	}
	if lost == 0 {
		t.Fatal("no schedule found the lost update")
	}
	t.Logf("lost updates in %d/200 seeds; leaked bubbles %d", lost, LeakedBubbles.Load())
}

func TestDeadlock(t *testing.T) {
	Bubble(t, Options{TapeSeed: 1}, func(s *Sim) {
		c := make(chan int)
		s.Go("stuck", false, func() { <-c })
		err := s.Run()
		if err == nil {
			t.Fatal("expected deadlock")
		}
		t.Log(err)
		close(c)
	})
}
