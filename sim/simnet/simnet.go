// Package simnet is the simulated network of the simulator: in-memory UDP sockets and TCP
// listeners/connections whose delivery (delay, reordering, duplication, loss, TCP segmentation)
// is decided by a seeded generator, and whose deadlines obey the bubble's fake clock.
package simnet

import (
	"errors"
	"fmt"
	"io"
	"net"
	"os"
	"sort"
	"sync"
	"time"
)

// Yielder is the part of the scheduler the network needs: after every blocking wake-up a
// goroutine parks before it touches shared state.
type Yielder interface {
	Y(point string)
}

// Config are the fault rates (per mille) and latencies of one run.
type Config struct {
	Seed       uint64
	DropPM     int // UDP datagram loss, per mille
	DupPM      int // UDP datagram duplication, per mille
	MinLatency time.Duration
	Jitter     time.Duration // latency = MinLatency + [0, Jitter): jitter larger than the send spacing reorders
	Segments   []int         // TCP: sizes of the chunks a Write is cut into (cycled; 0 = whole)
	SegDelay   time.Duration // delay between two chunks of one Write
}

// Stats counts what the network actually did.
type Stats struct {
	Sent, Dropped, Duplicated, Delivered, Reordered int
	TCPSegments, TCPConns                           int
}

// Net is one simulated network.
type Net struct {
	mu            sync.Mutex
	y             Yielder
	cfg           Config
	rng           uint64
	udp           map[string]*PacketConn
	tcp           map[string]*Listener
	Stats         Stats
	lastDeliverAt map[string]time.Time
	taken         map[int64]bool // delivery instants in use (see slot)
	// FaultsOff disables loss and duplication (bounded-liveness phase).
	FaultsOff bool
}

// New creates a network.
func New(y Yielder, cfg Config) *Net {
	return &Net{y: y, cfg: cfg, rng: cfg.Seed*0x9e3779b97f4a7c15 + 77, udp: map[string]*PacketConn{}, tcp: map[string]*Listener{}, lastDeliverAt: map[string]time.Time{}}
}

// slot returns an instant not before at that no other delivery of this network uses, and that no
// deadline can use either: deliveries get an odd nanosecond offset, every other timer of a run is a
// whole number of microseconds away from the start of the bubble. Two timers firing in the same
// instant would leave the order of their effects to the Go runtime (no ties, DESIGN 2.3); packets
// sent to one socket in the same instant with the same latency used to tie. Caller holds n.mu.
func (n *Net) slot(at time.Time) time.Time {
	if n.taken == nil {
		n.taken = map[int64]bool{}
	}
	at = at.Add(time.Nanosecond)
	for n.taken[at.UnixNano()] {
		at = at.Add(2 * time.Nanosecond)
	}
	n.taken[at.UnixNano()] = true
	return at
}

func (n *Net) next() uint64 {
	n.rng += 0x9e3779b97f4a7c15
	z := n.rng
	z = (z ^ (z >> 30)) * 0xbf58476d1ce4e5b9
	z = (z ^ (z >> 27)) * 0x94d049bb133111eb
	return z ^ (z >> 31)
}

type timeoutErr struct{}

func (timeoutErr) Error() string   { return "i/o timeout" }
func (timeoutErr) Timeout() bool   { return true }
func (timeoutErr) Temporary() bool { return true }

// ErrTimeout is returned when a deadline passes.
var ErrTimeout net.Error = timeoutErr{}

func init() { _ = os.ErrDeadlineExceeded }

// ---- UDP ------------------------------------------------------------------------------------

type packet struct {
	data []byte
	from net.Addr
}

// PacketConn is an in-memory UDP socket.
type PacketConn struct {
	n        *Net
	addr     *net.UDPAddr
	in       chan packet
	closed   chan struct{}
	closeOne sync.Once
	dmu      sync.Mutex
	deadline time.Time
	dlChange chan struct{}
}

// ListenUDP opens a socket on addr ("ip:port").
func (n *Net) ListenUDP(addr string) (*PacketConn, error) {
	ua, err := net.ResolveUDPAddr("udp", addr)
	if err != nil {
		return nil, err
	}
	n.mu.Lock()
	defer n.mu.Unlock()
	if _, ok := n.udp[ua.String()]; ok {
		return nil, fmt.Errorf("simnet: udp %s already in use", ua)
	}
	c := &PacketConn{n: n, addr: ua, in: make(chan packet, 1024), closed: make(chan struct{}), dlChange: make(chan struct{}, 1)}
	n.udp[ua.String()] = c
	return c, nil
}

// ReadFrom implements net.PacketConn.
func (c *PacketConn) ReadFrom(p []byte) (int, net.Addr, error) {
	for {
		c.dmu.Lock()
		dl := c.deadline
		c.dmu.Unlock()
		var timer <-chan time.Time
		if !dl.IsZero() {
			d := time.Until(dl)
			if d <= 0 {
				return 0, nil, ErrTimeout
			}
			timer = time.After(d)
		}
		select {
		case pk := <-c.in:
			c.n.y.Y("simnet.udp.recv@" + c.addr.String())
			n := copy(p, pk.data)
			return n, pk.from, nil
		case <-c.closed:
			return 0, nil, net.ErrClosed
		case <-timer:
			c.n.y.Y("simnet.udp.timeout@" + c.addr.String())
			return 0, nil, ErrTimeout
		case <-c.dlChange:
		}
	}
}

// WriteTo implements net.PacketConn.
func (c *PacketConn) WriteTo(p []byte, addr net.Addr) (int, error) {
	select {
	case <-c.closed:
		return 0, net.ErrClosed
	default:
	}
	c.n.sendUDP(c.addr, addr, p)
	return len(p), nil
}

func (n *Net) sendUDP(from, to net.Addr, p []byte) {
	n.mu.Lock()
	dst := n.udp[to.String()]
	n.Stats.Sent++
	copies := 1
	if !n.FaultsOff {
		if int(n.next()%1000) < n.cfg.DropPM {
			n.Stats.Dropped++
			copies = 0
		} else if int(n.next()%1000) < n.cfg.DupPM {
			n.Stats.Duplicated++
			copies = 2
		}
	}
	var delays []time.Duration
	for i := 0; i < copies; i++ {
		d := n.cfg.MinLatency
		if n.cfg.Jitter > 0 {
			d += time.Duration(n.next() % uint64(n.cfg.Jitter))
		}
		if d <= 0 {
			d = time.Microsecond
		}
		at := n.slot(time.Now().Add(d))
		delays = append(delays, time.Until(at))
		if last, ok := n.lastDeliverAt[to.String()]; ok && at.Before(last) {
			n.Stats.Reordered++
		} else {
			n.lastDeliverAt[to.String()] = at
		}
	}
	n.mu.Unlock()
	if dst == nil {
		return
	}
	data := append([]byte(nil), p...)
	for _, d := range delays {
		time.AfterFunc(d, func() {
			select {
			case dst.in <- packet{data, from}:
				n.mu.Lock()
				n.Stats.Delivered++
				n.mu.Unlock()
			case <-dst.closed:
			default: // receive queue full: dropped like a real socket buffer
			}
		})
	}
}

// Close implements net.PacketConn.
func (c *PacketConn) Close() error {
	c.closeOne.Do(func() {
		close(c.closed)
		c.n.mu.Lock()
		delete(c.n.udp, c.addr.String())
		c.n.mu.Unlock()
	})
	return nil
}

// LocalAddr implements net.PacketConn.
func (c *PacketConn) LocalAddr() net.Addr { return c.addr }

func (c *PacketConn) setDeadline(t time.Time) {
	c.dmu.Lock()
	c.deadline = t
	c.dmu.Unlock()
	select {
	case c.dlChange <- struct{}{}:
	default:
	}
}

// SetDeadline implements net.PacketConn.
func (c *PacketConn) SetDeadline(t time.Time) error { c.setDeadline(t); return nil }

// SetReadDeadline implements net.PacketConn.
func (c *PacketConn) SetReadDeadline(t time.Time) error { c.setDeadline(t); return nil }

// SetWriteDeadline implements net.PacketConn.
func (c *PacketConn) SetWriteDeadline(time.Time) error { return nil }

// ---- TCP ------------------------------------------------------------------------------------

// Listener is an in-memory TCP listener.
type Listener struct {
	n        *Net
	addr     *net.TCPAddr
	backlog  chan *Conn
	closed   chan struct{}
	closeOne sync.Once
}

// ListenTCP opens a listener on addr.
func (n *Net) ListenTCP(addr string) (*Listener, error) {
	ta, err := net.ResolveTCPAddr("tcp", addr)
	if err != nil {
		return nil, err
	}
	n.mu.Lock()
	defer n.mu.Unlock()
	if _, ok := n.tcp[ta.String()]; ok {
		return nil, fmt.Errorf("simnet: tcp %s already in use", ta)
	}
	l := &Listener{n: n, addr: ta, backlog: make(chan *Conn, 64), closed: make(chan struct{})}
	n.tcp[ta.String()] = l
	return l, nil
}

// acceptError is the transient error a real accept(2) returns when the process runs out of file
// descriptors (EMFILE) or a connection was aborted before it was accepted: a net.Error that says
// Temporary, after which servers are expected to keep accepting.
type acceptError struct{}

func (acceptError) Error() string   { return "accept: too many open files (simulated)" }
func (acceptError) Timeout() bool   { return false }
func (acceptError) Temporary() bool { return true }

// InjectAcceptError makes the next Accept of this listener fail once with a temporary error.
// It reports whether the fault could be queued.
func (l *Listener) InjectAcceptError() bool {
	select {
	case l.backlog <- nil:
		return true
	default:
		return false
	}
}

// Listeners returns the open TCP listeners in address order.
func (n *Net) Listeners() []*Listener {
	n.mu.Lock()
	defer n.mu.Unlock()
	var keys []string
	for k := range n.tcp {
		keys = append(keys, k)
	}
	sort.Strings(keys)
	var out []*Listener
	for _, k := range keys {
		out = append(out, n.tcp[k])
	}
	return out
}

// Accept implements net.Listener.
func (l *Listener) Accept() (net.Conn, error) {
	select {
	case c := <-l.backlog:
		l.n.y.Y("simnet.tcp.accept@" + l.addr.String())
		if c == nil {
			return nil, acceptError{}
		}
		return c, nil
	case <-l.closed:
		return nil, net.ErrClosed
	}
}

// Close implements net.Listener.
func (l *Listener) Close() error {
	l.closeOne.Do(func() {
		close(l.closed)
		l.n.mu.Lock()
		delete(l.n.tcp, l.addr.String())
		l.n.mu.Unlock()
	})
	return nil
}

// Addr implements net.Listener.
func (l *Listener) Addr() net.Addr { return l.addr }

// Conn is one end of an in-memory TCP connection.
type Conn struct {
	n        *Net
	local    *net.TCPAddr
	remote   *net.TCPAddr
	rx       chan []byte // chunks in order
	pending  []byte
	peer     *Conn
	closed   chan struct{} // this end closed
	closeOne sync.Once
	wmu      sync.Mutex
	sendAt   time.Time // delivery time of the last chunk sent (keeps the stream ordered)
	dmu      sync.Mutex
	deadline time.Time
	dlChange chan struct{}
	segIdx   int
	eofSent  bool
}

// DialTCP connects a client at local address from to the listener at addr.
func (n *Net) DialTCP(from, addr string) (*Conn, error) {
	fa, err := net.ResolveTCPAddr("tcp", from)
	if err != nil {
		return nil, err
	}
	ta, err := net.ResolveTCPAddr("tcp", addr)
	if err != nil {
		return nil, err
	}
	n.mu.Lock()
	l := n.tcp[ta.String()]
	n.Stats.TCPConns++
	n.mu.Unlock()
	if l == nil {
		return nil, errors.New("simnet: connection refused")
	}
	mk := func(local, remote *net.TCPAddr) *Conn {
		return &Conn{n: n, local: local, remote: remote, rx: make(chan []byte, 4096), closed: make(chan struct{}), dlChange: make(chan struct{}, 1)}
	}
	c, s := mk(fa, ta), mk(ta, fa)
	c.peer, s.peer = s, c
	select {
	case l.backlog <- s:
	case <-l.closed:
		return nil, errors.New("simnet: connection refused")
	}
	return c, nil
}

// Read implements net.Conn: returns at most one delivered chunk (so segmentation is visible).
func (c *Conn) Read(p []byte) (int, error) {
	if len(p) == 0 {
		return 0, nil
	}
	for len(c.pending) == 0 {
		c.dmu.Lock()
		dl := c.deadline
		c.dmu.Unlock()
		var timer <-chan time.Time
		if !dl.IsZero() {
			d := time.Until(dl)
			if d <= 0 {
				return 0, ErrTimeout
			}
			timer = time.After(d)
		}
		select {
		case chunk := <-c.rx:
			c.n.y.Y("simnet.tcp.recv@" + c.local.String() + "<" + c.remote.String())
			if chunk == nil {
				return 0, io.EOF
			}
			c.pending = chunk
		case <-c.closed:
			return 0, net.ErrClosed
		case <-timer:
			c.n.y.Y("simnet.tcp.timeout@" + c.local.String() + "<" + c.remote.String())
			return 0, ErrTimeout
		case <-c.dlChange:
		}
	}
	n := copy(p, c.pending)
	c.pending = c.pending[n:]
	return n, nil
}

// Write implements net.Conn: the bytes are cut into chunks and delivered in order.
func (c *Conn) Write(p []byte) (int, error) {
	select {
	case <-c.closed:
		return 0, net.ErrClosed
	case <-c.peer.closed:
		return 0, errors.New("simnet: broken pipe")
	default:
	}
	c.wmu.Lock()
	defer c.wmu.Unlock()
	rest := append([]byte(nil), p...)
	for len(rest) > 0 {
		sz := len(rest)
		c.n.mu.Lock()
		if segs := c.n.cfg.Segments; len(segs) > 0 {
			if s := segs[c.segIdx%len(segs)]; s > 0 && s < sz {
				sz = s
			}
			c.segIdx++
		}
		c.n.Stats.TCPSegments++
		lat := c.n.cfg.MinLatency
		if lat <= 0 {
			lat = time.Microsecond
		}
		c.n.mu.Unlock()
		chunk := rest[:sz]
		rest = rest[sz:]
		at := time.Now().Add(lat)
		if !at.After(c.sendAt) {
			at = c.sendAt.Add(c.n.cfg.SegDelay + time.Microsecond)
		}
		c.n.mu.Lock()
		at = c.n.slot(at)
		c.n.mu.Unlock()
		c.sendAt = at
		peer := c.peer
		time.AfterFunc(time.Until(at), func() {
			select {
			case peer.rx <- chunk:
			case <-peer.closed:
			}
		})
	}
	return len(p), nil
}

// CloseWrite half-closes the connection: the peer reads EOF after the data in flight.
func (c *Conn) CloseWrite() {
	c.wmu.Lock()
	defer c.wmu.Unlock()
	if c.eofSent {
		return
	}
	c.eofSent = true
	at := time.Now().Add(time.Microsecond)
	if !at.After(c.sendAt) {
		at = c.sendAt.Add(time.Microsecond)
	}
	c.n.mu.Lock()
	at = c.n.slot(at)
	c.n.mu.Unlock()
	c.sendAt = at
	peer := c.peer
	time.AfterFunc(time.Until(at), func() {
		select {
		case peer.rx <- nil:
		case <-peer.closed:
		}
	})
}

// Close implements net.Conn.
func (c *Conn) Close() error {
	c.closeOne.Do(func() {
		c.CloseWrite()
		close(c.closed)
	})
	return nil
}

// LocalAddr implements net.Conn.
func (c *Conn) LocalAddr() net.Addr { return c.local }

// RemoteAddr implements net.Conn.
func (c *Conn) RemoteAddr() net.Addr { return c.remote }

func (c *Conn) setDeadline(t time.Time) {
	c.dmu.Lock()
	c.deadline = t
	c.dmu.Unlock()
	select {
	case c.dlChange <- struct{}{}:
	default:
	}
}

// SetDeadline implements net.Conn.
func (c *Conn) SetDeadline(t time.Time) error { c.setDeadline(t); return nil }

// SetReadDeadline implements net.Conn.
func (c *Conn) SetReadDeadline(t time.Time) error { c.setDeadline(t); return nil }

// SetWriteDeadline implements net.Conn.
func (c *Conn) SetWriteDeadline(time.Time) error { return nil }
